package checks

import (
	"encoding/asn1"
	"encoding/json"
	"fmt"
	"math"
	"math/big"
	mrand "math/rand/v2"
	"sort"
	"strings"

	"github.com/gmrtd/gmrtd/activeauth"
	"github.com/gmrtd/gmrtd/chipauth"
	"github.com/gmrtd/gmrtd/document"
	"github.com/gmrtd/gmrtd/pace"
	"github.com/gmrtd/gmrtd/verifier"

	"verifharness/chipsim"
	"verifharness/der"
	"verifharness/ecref"
	"verifharness/fw"
	"verifharness/issuer"
	"verifharness/mutate"
)

// Evidence verification with documents and evidence built through the public structs and
// constructors. Every variant is a c12Doc (files + evidence); it is verified twice:
//   - struct route: the files go through the document constructors, the evidence struct
//     is handed to <mech>.VerifyEvidence
//   - bytes route: the same content is serialised (harness's CBOR writer, correct
//     checksums) and given to verifier.Verify

type c12Variant struct {
	label string
	mech  string // CA | CAM | AA
	d     *c12Doc
	heavy bool // alone in its case (seconds of legitimate big-number arithmetic)
}

func (d *c12Doc) size() int {
	n := 0
	for _, f := range d.files {
		n += len(f)
	}
	for _, p := range c12EvFields(d) {
		n += len(*p)
	}
	return n
}

// c12BuildDocument runs the files through the constructors.
func c12BuildDocument(files map[string][]byte) (*document.Document, error) {
	doc := &document.Document{}
	var err error
	if doc.Mf.CardAccess, err = document.NewCardAccess(files["cardAccess"]); err != nil {
		return nil, err
	}
	if doc.Mf.CardSecurity, err = document.NewCardSecurity(files["cardSecurity"]); err != nil {
		return nil, err
	}
	if doc.Mf.Dir, err = document.NewEFDIR(files["dir"]); err != nil {
		return nil, err
	}
	if doc.Mf.Lds1.Com, err = document.NewCOM(files["com"]); err != nil {
		return nil, err
	}
	if doc.Mf.Lds1.Sod, err = document.NewSOD(files["sod"]); err != nil {
		return nil, err
	}
	for _, n := range supportedDGs {
		if f := files[fmt.Sprintf("dg%d", n)]; len(f) > 0 {
			if err = doc.NewDG(n, f); err != nil {
				return nil, err
			}
		}
	}
	return doc, nil
}

func c12Rep(c byte, n int) []byte {
	b := make([]byte, n)
	for i := range b {
		b[i] = c
	}
	return b
}

// c12FieldValues are the replacement values of one evidence field (old: genuine value).
func c12FieldValues(old []byte) map[string][]byte {
	m := map[string][]byte{
		"nil": nil, "empty": {}, "one-octet": {0x01}, "zero-octet": {0x00}, "1KiB": c12Rep(0xab, 1024), "1KiB+1": c12Rep(0xab, 1025), "1MiB": make([]byte, 1<<20),
		"all-ff-same-length": c12Rep(0xff, len(old)), "all-00-same-length": make([]byte, len(old)),
		"zero-prefixed": append(make([]byte, 33), old...), "appended": append(append([]byte{}, old...), 0x00, 0x01),
	}
	if len(old) > 1 {
		m["truncated"] = old[:len(old)-1]
		m["first-octet-00"] = append([]byte{0x00}, old[1:]...)
		m["first-octet-02"] = append([]byte{0x02}, old[1:]...)
		m["half"] = old[:len(old)/2]
	}
	return m
}

func sortedKeysB(m map[string][]byte) []string {
	var ks []string
	for k := range m {
		ks = append(ks, k)
	}
	sort.Strings(ks)
	return ks
}

func (w *c12World) sessionWith(mech string) *c12Doc {
	for _, d := range w.docs() {
		switch {
		case mech == "CA" && d.ca != nil, mech == "CAM" && d.cam != nil, mech == "AA" && d.aa != nil:
			return d
		}
	}
	fw.Bug("c12: no genuine session with %s evidence", mech)
	return nil
}

func (w *c12World) sessionsWith(mech string) []*c12Doc {
	var out []*c12Doc
	for _, d := range w.docs() {
		switch {
		case mech == "CA" && d.ca != nil, mech == "CAM" && d.cam != nil, mech == "AA" && d.aa != nil:
			out = append(out, d)
		}
	}
	return out
}

func c12RSASPKI(n *big.Int, e *big.Int) []byte {
	return der.Seq(der.Seq(der.OID(1, 2, 840, 113549, 1, 1, 1), der.Null()), der.BitString(der.Seq(c12DERInt(n), c12DERInt(e))))
}

// c12DERInt encodes any INTEGER, negative ones included (two's complement).
func c12DERInt(v *big.Int) []byte {
	b, err := asn1.Marshal(v)
	if err != nil {
		fw.Bug("c12: cannot encode integer: %v", err)
	}
	return b
}

func c12OddBig(r *mrand.Rand, octets int) *big.Int {
	b := make([]byte, octets)
	for i := range b {
		b[i] = byte(r.Uint32())
	}
	b[0] |= 0x80
	b[len(b)-1] |= 1
	return new(big.Int).SetBytes(b)
}

// c12DirectedVariants enumerates the directed evidence / document shapes of DESIGN C12.
func (w *c12World) directedVariants() []c12Variant {
	var out []c12Variant
	r := w.c.PlanRNG("c12/evidence")
	add := func(mech, label string, d *c12Doc) {
		out = append(out, c12Variant{label: label, mech: mech, d: d, heavy: strings.HasPrefix(label, "rsa-modulus-8192") || strings.HasPrefix(label, "rsa-modulus-65536")})
	}

	// ---------------- CA
	for si, base := range w.sessionsWith("CA") {
		tag := fmt.Sprintf("s%d:", si)
		add("CA", tag+"genuine", base.clone())
		// absent document parts
		for _, k := range []string{"dg14", "sod", "dg1", "cardAccess", "com"} {
			d := base.clone()
			delete(d.files, k)
			add("CA", tag+"no-"+k, d)
		}
		d := base.clone()
		d.files = map[string][]byte{}
		add("CA", tag+"empty-document", d)
		// evidence fields
		fields := []struct {
			name string
			get  func(e *document.ChipAuthEvidence) *[]byte
		}{{"TermPri", func(e *document.ChipAuthEvidence) *[]byte { return &e.TermPri }}, {"TermPubKey", func(e *document.ChipAuthEvidence) *[]byte { return &e.TermPubKey }},
			{"SmRapdu", func(e *document.ChipAuthEvidence) *[]byte { return &e.SmRapdu }}, {"SmSsc", func(e *document.ChipAuthEvidence) *[]byte { return &e.SmSsc }}}
		for _, f := range fields {
			vals := c12FieldValues(*f.get(base.ca))
			for _, vk := range sortedKeysB(vals) {
				d := base.clone()
				*f.get(d.ca) = vals[vk]
				add("CA", tag+f.name+"="+vk, d)
			}
		}
		// a recorded response APDU whose first data object claims 256 MiB (decoded before the
		// checksum is verified)
		{
			d := base.clone()
			d.ca.SmRapdu = []byte{0x87, 0x84, 0x10, 0x00, 0x00, 0x00, 0x01, 0x90, 0x00}
			add("CA", tag+"SmRapdu=256MiB-claim", d)
		}
		// counters around the block sizes
		for _, n := range []int{1, 7, 8, 9, 15, 16, 17, 24, 32, 255} {
			d := base.clone()
			d.ca.SmSsc = c12Rep(0x01, n)
			add("CA", fmt.Sprintf("%sSmSsc=%d-octets", tag, n), d)
			d2 := base.clone()
			d2.ca.SmSsc = make([]byte, n)
			add("CA", fmt.Sprintf("%sSmSsc=%d-zero-octets", tag, n), d2)
		}
		// key ids on one side only, missing halves, foreign key types
		if si == 0 {
			cv := ecref.All()[0]
			key := issuer.NewECKey(r, cv)
			key2 := issuer.NewECKey(r, cv)
			dh := der.Seq(der.Seq(der.OID(1, 2, 840, 113549, 1, 3, 1), der.Seq(der.Int(c12OddBig(r, 128)), der.Int64(2))), der.BitString(der.Int(c12OddBig(r, 127))))
			pkDH := der.Seq(der.OID(0, 4, 0, 127, 0, 7, 2, 2, 1, 1), dh)
			shapes := map[string][]byte{
				"keyid-in-info-only":         der.Set(issuer.ChipAuthPublicKeyInfo(key.SPKI(), -1), issuer.ChipAuthInfo(1, 5)),
				"keyid-in-key-only":          der.Set(issuer.ChipAuthPublicKeyInfo(key.SPKI(), 5), issuer.ChipAuthInfo(1, -1)),
				"keyid-mismatch":             der.Set(issuer.ChipAuthPublicKeyInfo(key.SPKI(), 5), issuer.ChipAuthInfo(1, 6)),
				"keyid-in-info-two-keys":     der.Set(issuer.ChipAuthPublicKeyInfo(key.SPKI(), -1), issuer.ChipAuthPublicKeyInfo(key2.SPKI(), 7), issuer.ChipAuthInfo(1, 7)),
				"keyid-huge":                 der.Set(issuer.ChipAuthPublicKeyInfo(key.SPKI(), -1), der.Seq(der.OID(0, 4, 0, 127, 0, 7, 2, 2, 3, 2, 2), der.Int64(1), der.Int(c12OddBig(r, 200)))),
				"keyid-negative":             der.Set(issuer.ChipAuthPublicKeyInfo(key.SPKI(), -1), der.Seq(der.OID(0, 4, 0, 127, 0, 7, 2, 2, 3, 2, 2), der.Int64(1), c12DERInt(big.NewInt(-3)))),
				"info-only":                  der.Set(issuer.ChipAuthInfo(1, -1)),
				"key-only":                   der.Set(issuer.ChipAuthPublicKeyInfo(key.SPKI(), -1)),
				"two-infos":                  der.Set(issuer.ChipAuthPublicKeyInfo(key.SPKI(), -1), issuer.ChipAuthInfo(0, -1), issuer.ChipAuthInfo(3, -1)),
				"dh-key":                     der.Set(pkDH, der.Seq(der.OID(0, 4, 0, 127, 0, 7, 2, 2, 3, 1, 2), der.Int64(1))),
				"dh-key-ecdh-info":           der.Set(pkDH, issuer.ChipAuthInfo(1, -1)),
				"no-ca-infos":                der.Set(issuer.ActiveAuthInfo([]int{0, 4, 0, 127, 0, 7, 1, 1, 4, 1, 3})),
				"empty-set":                  der.Set(),
				"point-at-infinity":          der.Set(issuer.ChipAuthPublicKeyInfo(der.Seq(der.Seq(der.OID(1, 2, 840, 10045, 2, 1), der.OID(issuer.CurveOID(cv)...)), der.BitString([]byte{0x00})), -1), issuer.ChipAuthInfo(1, -1)),
				"empty-point":                der.Set(issuer.ChipAuthPublicKeyInfo(der.Seq(der.Seq(der.OID(1, 2, 840, 10045, 2, 1), der.OID(issuer.CurveOID(cv)...)), der.BitString(nil)), -1), issuer.ChipAuthInfo(1, -1)),
				"point-off-curve":            der.Set(issuer.ChipAuthPublicKeyInfo(der.Seq(der.Seq(der.OID(1, 2, 840, 10045, 2, 1), der.OID(issuer.CurveOID(cv)...)), der.BitString(append([]byte{0x04}, c12Rep(0x11, 2*cv.ByteLen)...))), -1), issuer.ChipAuthInfo(1, -1)),
				"unknown-curve-oid":          der.Set(issuer.ChipAuthPublicKeyInfo(der.Seq(der.Seq(der.OID(1, 2, 840, 10045, 2, 1), der.OID(1, 2, 3, 4)), der.BitString(cv.Encode(key.EC.Q))), -1), issuer.ChipAuthInfo(1, -1)),
				"key-without-parameters":     der.Set(issuer.ChipAuthPublicKeyInfo(der.Seq(der.Seq(der.OID(1, 2, 840, 10045, 2, 1)), der.BitString(cv.Encode(key.EC.Q))), -1), issuer.ChipAuthInfo(1, -1)),
				"rsa-key-as-ca-key":          der.Set(issuer.ChipAuthPublicKeyInfo(c12RSASPKI(c12OddBig(r, 128), big.NewInt(65537)), -1), issuer.ChipAuthInfo(1, -1)),
				"explicit-params-1KiB-prime": der.Set(issuer.ChipAuthPublicKeyInfo(c12ExplicitHuge(r, cv, key, 1024), -1), issuer.ChipAuthInfo(1, -1)),
			}
			var names []string
			for k := range shapes {
				names = append(names, k)
			}
			sort.Strings(names)
			for _, name := range names {
				d := base.clone()
				d.files["dg14"] = der.T(0x6E, shapes[name])
				add("CA", "dg14:"+name, d)
			}
		}
	}
	// ---------------- PACE-CAM
	for si, base := range w.sessionsWith("CAM") {
		tag := fmt.Sprintf("s%d:", si)
		add("CAM", tag+"genuine", base.clone())
		for _, k := range []string{"cardSecurity", "dg14", "sod", "cardAccess"} {
			d := base.clone()
			delete(d.files, k)
			add("CAM", tag+"no-"+k, d)
		}
		d := base.clone()
		d.files = map[string][]byte{}
		add("CAM", tag+"empty-document", d)
		fields := []struct {
			name string
			get  func(e *document.PaceCamEvidence) *[]byte
		}{{"Nonce", func(e *document.PaceCamEvidence) *[]byte { return &e.Nonce }}, {"TermMapPri", func(e *document.PaceCamEvidence) *[]byte { return &e.TermMapPri }},
			{"TermMapPub", func(e *document.PaceCamEvidence) *[]byte { return &e.TermMapPub }}, {"ChipMapPub", func(e *document.PaceCamEvidence) *[]byte { return &e.ChipMapPub }},
			{"TermKaPri", func(e *document.PaceCamEvidence) *[]byte { return &e.TermKaPri }}, {"TermKaPub", func(e *document.PaceCamEvidence) *[]byte { return &e.TermKaPub }},
			{"ChipKaPub", func(e *document.PaceCamEvidence) *[]byte { return &e.ChipKaPub }}, {"EcadIC", func(e *document.PaceCamEvidence) *[]byte { return &e.EcadIC }}}
		for _, f := range fields {
			vals := c12FieldValues(*f.get(base.cam))
			for _, vk := range sortedKeysB(vals) {
				d := base.clone()
				*f.get(d.cam) = vals[vk]
				add("CAM", tag+f.name+"="+vk, d)
			}
		}
		for _, n := range []int{1, 7, 8, 15, 16, 17, 31, 32, 33, 48, 1008, 1024} {
			d := base.clone()
			d.cam.EcadIC = c12Rep(0x5a, n)
			add("CAM", fmt.Sprintf("%sEcadIC=%d-octets", tag, n), d)
			d2 := base.clone()
			d2.cam.Nonce = c12Rep(0x5a, n)
			add("CAM", fmt.Sprintf("%sNonce=%d-octets", tag, n), d2)
		}
		for _, id := range []int{-1, 0, 1, 2, 3, 7, 8, 9, 10, 11, 12, 13, 14, 15, 16, 17, 18, 19, 20, 21, 255, 1 << 31, math.MaxInt64, math.MinInt64} {
			d := base.clone()
			d.cam.ParameterId = id
			add("CAM", fmt.Sprintf("%sParameterId=%d", tag, id), d)
		}
		oids := map[string]asn1.ObjectIdentifier{
			"nil": nil, "empty": {}, "one-arc": {0}, "gm-oid": {0, 4, 0, 127, 0, 7, 2, 2, 4, 2, 2}, "im-oid": {0, 4, 0, 127, 0, 7, 2, 2, 4, 4, 2}, "dh-gm-oid": {0, 4, 0, 127, 0, 7, 2, 2, 4, 1, 1},
			"cam-3des-like": {0, 4, 0, 127, 0, 7, 2, 2, 4, 6, 1}, "cam-suffix-5": {0, 4, 0, 127, 0, 7, 2, 2, 4, 6, 5}, "negative-arc": {0, 4, 0, 127, 0, 7, 2, 2, 4, 6, -2}, "huge-arc": {0, 4, 0, 127, 0, 7, 2, 2, 4, 6, math.MaxInt64},
			"first-arc-9": {9, 99, 1}, "prefix-only": {0, 4, 0, 127, 0, 7, 2, 2, 4},
		}
		long := make(asn1.ObjectIdentifier, 5000)
		for i := range long {
			long[i] = i
		}
		oids["5000-arcs"] = long
		var names []string
		for k := range oids {
			names = append(names, k)
		}
		sort.Strings(names)
		for _, name := range names {
			d := base.clone()
			d.cam.PaceOid = oids[name]
			add("CAM", tag+"PaceOid="+name, d)
		}
	}
	// ---------------- AA
	for si, base := range w.sessionsWith("AA") {
		tag := fmt.Sprintf("s%d:", si)
		add("AA", tag+"genuine", base.clone())
		for _, k := range []string{"dg15", "sod", "dg14", "dg1"} {
			d := base.clone()
			delete(d.files, k)
			add("AA", tag+"no-"+k, d)
		}
		d := base.clone()
		d.files = map[string][]byte{}
		add("AA", tag+"empty-document", d)
		for _, f := range []struct {
			name string
			get  func(e *document.ActiveAuthEvidence) *[]byte
		}{{"Nonce", func(e *document.ActiveAuthEvidence) *[]byte { return &e.Nonce }}, {"Signature", func(e *document.ActiveAuthEvidence) *[]byte { return &e.Signature }}} {
			vals := c12FieldValues(*f.get(base.aa))
			for _, vk := range sortedKeysB(vals) {
				d := base.clone()
				*f.get(d.aa) = vals[vk]
				add("AA", tag+f.name+"="+vk, d)
			}
		}
		algs := map[string]asn1.ObjectIdentifier{"nil": nil, "empty": {}, "rsa": {1, 2, 840, 113549, 1, 1, 1}, "ec": {1, 2, 840, 10045, 2, 1}, "unrelated": {2, 5, 4, 3}, "negative": {1, -2}, "huge": {1, 2, math.MaxInt64}}
		var names []string
		for k := range algs {
			names = append(names, k)
		}
		sort.Strings(names)
		for _, name := range names {
			d := base.clone()
			d.aa.Algorithm = algs[name]
			add("AA", tag+"Algorithm="+name, d)
		}
		if si == 0 {
			rsaOID := asn1.ObjectIdentifier{1, 2, 840, 113549, 1, 1, 1}
			// RSA keys with extreme moduli / exponents, signature lengths around the key width
			for _, octets := range []int{1, 8, 64, 127, 128, 129, 256, 512, 2048, 8192, 65536} {
				for _, e := range []*big.Int{big.NewInt(3), big.NewInt(65537), new(big.Int).SetUint64(1<<62 + 1)} {
					for _, sl := range []int{1, octets - 1, octets, octets + 1, 1024} {
						if sl < 1 || sl > 1024 {
							continue
						}
						d := base.clone()
						d.files["dg15"] = der.T(0x6F, c12RSASPKI(c12OddBig(r, octets), e))
						d.aa.Algorithm = rsaOID
						d.aa.Signature = c12Rep(0x6a, sl)
						add("AA", fmt.Sprintf("rsa-modulus-%d-octets:e=%s:sig=%d", octets, e.String(), sl), d)
					}
				}
			}
			exps := map[string]*big.Int{"1": big.NewInt(1), "2": big.NewInt(2), "0": big.NewInt(0), "-3": big.NewInt(-3), "2^63-1": new(big.Int).SetUint64(1<<63 - 1), "2^64+1": new(big.Int).Add(new(big.Int).Lsh(big.NewInt(1), 64), big.NewInt(1)), "8KiB": c12OddBig(r, 8192)}
			var en []string
			for k := range exps {
				en = append(en, k)
			}
			sort.Strings(en)
			for _, k := range en {
				d := base.clone()
				d.files["dg15"] = der.T(0x6F, c12RSASPKI(c12OddBig(r, 256), exps[k]))
				d.aa.Algorithm = rsaOID
				d.aa.Signature = c12Rep(0x6a, 256)
				add("AA", "rsa-exponent="+k, d)
			}
			for name, n := range map[string]*big.Int{"zero": big.NewInt(0), "negative": big.NewInt(-12345), "even-1KiB": new(big.Int).Lsh(big.NewInt(1), 8191), "one": big.NewInt(1)} {
				d := base.clone()
				d.files["dg15"] = der.T(0x6F, c12RSASPKI(n, big.NewInt(65537)))
				d.aa.Algorithm = rsaOID
				d.aa.Signature = c12Rep(0x6a, 128)
				add("AA", "rsa-modulus="+name, d)
			}
			// EC keys with signatures of odd sizes
			ecOID := asn1.ObjectIdentifier{1, 2, 840, 10045, 2, 1}
			for ci, cv := range ecref.All() {
				key := issuer.NewECKey(r, cv)
				key.Explicit = ci%2 == 1
				for _, sl := range []int{1, 2, 2*cv.ByteLen - 1, 2 * cv.ByteLen, 2*cv.ByteLen + 1, 1024} {
					d := base.clone()
					d.files["dg15"] = der.T(0x6F, key.SPKI())
					d.aa.Algorithm = ecOID
					d.aa.Signature = c12Rep(0x01, sl)
					add("AA", fmt.Sprintf("ec-%s:sig=%d", cv.Name, sl), d)
				}
			}
			d := base.clone()
			d.files["dg15"] = der.T(0x6F, c12ExplicitHuge(r, ecref.All()[0], issuer.NewECKey(r, ecref.All()[0]), 1024))
			d.aa.Algorithm = ecOID
			d.aa.Signature = c12Rep(0x01, 64)
			add("AA", "ec-explicit-params-1KiB-prime", d)
		}
	}
	// every mechanism's evidence against every other session's document
	docs := w.docs()
	for i, a := range docs {
		for j, b := range docs {
			if i == j {
				continue
			}
			d := b.clone()
			d.cam, d.ca, d.aa = a.cam, a.ca, a.aa
			for _, m := range []string{"CA", "CAM", "AA"} {
				if (m == "CA" && a.ca != nil) || (m == "CAM" && a.cam != nil) || (m == "AA" && a.aa != nil) {
					add(m, fmt.Sprintf("evidence-of-s%d-on-document-s%d", i, j), d)
				}
			}
		}
	}
	return out
}

// c12ExplicitHuge: an EC SubjectPublicKeyInfo with explicit parameters whose prime, a, b,
// base point and order have the given number of octets (random, not a curve).
func c12ExplicitHuge(r *mrand.Rand, cv *ecref.Curve, key *issuer.Key, octets int) []byte {
	p := c12OddBig(r, octets)
	a := c12OddBig(r, octets-1).Bytes()
	b := c12OddBig(r, octets-1).Bytes()
	g := append([]byte{0x04}, append(c12OddBig(r, octets).Bytes(), c12OddBig(r, octets).Bytes()...)...)
	params := der.Seq(der.Int64(1), der.Seq(der.OID(1, 2, 840, 10045, 1, 1), der.Int(p)), der.Seq(der.Octets(a), der.Octets(b)), der.Octets(g), der.Int(c12OddBig(r, octets)), der.Int64(1))
	return der.Seq(der.Seq(der.OID(1, 2, 840, 10045, 2, 1), params), der.BitString(g))
}

// runVariant verifies one variant over both routes.
func (w *c12World) runVariant(k *fw.K, v c12Variant) {
	d := v.d
	n := d.size()
	if strings.Contains(v.label, "crafted-recovered-message") {
		k.Count("evidence_variants_crafted_recovered_message")
	}
	show := func() string {
		blob := d.exCbor()
		return fmt.Sprintf("variant=%s; verifiable-document CBOR (%d octets): %s", v.label, len(blob), c12Hex(blob))
	}
	doc, derr := c12BuildDocument(d.files)
	if derr != nil {
		k.Count("evidence_variant_document_refused_by_constructors")
	} else {
		switch v.mech {
		case "CA":
			ev := *d.ca
			w.exec(k, "chipauth.VerifyEvidence", "evidence:"+c12Class(v.label), n, show, func() bool {
				res, err := chipauth.VerifyEvidence(doc, &ev)
				if res != nil {
					_, _ = json.Marshal(res)
				}
				return err == nil && res != nil && res.Success
			})
		case "CAM":
			ev := *d.cam
			w.exec(k, "pace.VerifyEvidence", "evidence:"+c12Class(v.label), n, show, func() bool {
				res, err := pace.VerifyEvidence(doc, &ev)
				if res != nil {
					_, _ = json.Marshal(res)
				}
				return err == nil && res != nil && res.Success
			})
		case "AA":
			ev := *d.aa
			w.exec(k, "activeauth.VerifyEvidence", "evidence:"+c12Class(v.label), n, show, func() bool {
				res, err := activeauth.VerifyEvidence(doc, &ev)
				if res != nil {
					_, _ = json.Marshal(res)
				}
				return err == nil && res != nil && res.Success
			})
		}
	}
	// bytes route (only the evidence of this mechanism is kept, so that one call = one mechanism)
	only := d.clone()
	switch v.mech {
	case "CA":
		only.cam, only.aa = nil, nil
	case "CAM":
		only.ca, only.aa = nil, nil
	case "AA":
		only.ca, only.cam = nil, nil
	}
	blob := only.exCbor()
	w.exec(k, "verifier.Verify", "evidence-bytes:"+v.mech+":"+c12Class(v.label), len(blob), func() string { return fmt.Sprintf("variant=%s; %s", v.label, c12Hex(blob)) }, func() bool {
		docEx, err := verifier.NewVerifier(w.pool).Verify(c12Clone(blob))
		if err != nil || docEx == nil {
			return false
		}
		w.followUps(docEx, nil)
		return true
	})
	k.Distinct("evidence|" + v.mech + "|" + v.label)
}

// c12Class strips the session prefix of a variant label (s0:, s1:) for the family name.
func c12Class(label string) string {
	if len(label) > 3 && label[0] == 's' && label[2] == ':' {
		return label[3:]
	}
	return label
}

func c12EvidenceCases(c *fw.Ctx, w *c12World) {
	vs := w.directedVariants()
	// bundles of 8 variants; a heavy variant is alone in its case
	var bundles [][]c12Variant
	var cur []c12Variant
	for _, v := range vs {
		if v.heavy {
			bundles = append(bundles, []c12Variant{v})
			continue
		}
		cur = append(cur, v)
		if len(cur) == 8 {
			bundles = append(bundles, cur)
			cur = nil
		}
	}
	if len(cur) > 0 {
		bundles = append(bundles, cur)
	}
	c.Cases(len(bundles), func(i int) string {
		v := bundles[i][0]
		return fmt.Sprintf("entry=%s.VerifyEvidence|family=evidence-directed|first=%s|i=%d", map[string]string{"CA": "chipauth", "CAM": "pace", "AA": "activeauth"}[v.mech], v.label, i)
	}, func(i int, k *fw.K) {
		w.evidenceBaseline()
		w.withLogging(k, func() {
			k.Nontrivial(fmt.Sprintf("evidence-directed|%d", i))
			for _, v := range bundles[i] {
				w.runVariant(k, v)
				if w.caseCPU > c12CaseCPUBudget {
					k.Count("bundles_cut_short_by_cpu_budget")
					break
				}
			}
		})
	})
	// random variants: one or two random changes per variant
	nRand := c.Pick(1500, 60000)
	const bundle = 10
	c.Cases(nRand/bundle, func(i int) string {
		return fmt.Sprintf("entry=%s.VerifyEvidence|family=evidence-random|bundle=%d|i=%d", []string{"chipauth", "pace", "activeauth"}[i%3], bundle, i)
	}, func(i int, k *fw.K) {
		mech := []string{"CA", "CAM", "AA"}[i%3]
		w.evidenceBaseline()
		w.withLogging(k, func() {
			k.Nontrivial(fmt.Sprintf("evidence-random|%d", i))
			for j := 0; j < bundle; j++ {
				bases := w.sessionsWith(mech)
				d := bases[k.RNG.IntN(len(bases))].clone()
				label := "random"
				for m := 1 + k.RNG.IntN(2); m > 0; m-- {
					label += ":" + c12RandomChange(k.RNG, d, mech)
				}
				w.runVariant(k, c12Variant{label: label, mech: mech, d: d})
				if w.caseCPU > c12CaseCPUBudget {
					k.Count("bundles_cut_short_by_cpu_budget")
					break
				}
			}
		})
	})
}

// craftedVariants: RSA responses that open to a crafted recovered message. The holder of the
// DG15 key chooses what the verifier recovers (S = F^d mod N) - nothing, one octet, header
// only, header + trailer and nothing else, trailers announcing a digest that is not there,
// digest lengths around the hash length (shapes shared with C07, c07_crafted.go). They are
// registered after every other case of the check, so that the indices (and with them the
// per-case PRNG streams) of all earlier cases stay what they were.
func (w *c12World) craftedVariants() []c12Variant {
	var out []c12Variant
	r := w.c.PlanRNG("c12/evidence-crafted")
	base := w.sessionWith("AA")
	rsaOID := asn1.ObjectIdentifier{1, 2, 840, 113549, 1, 1, 1}
	for _, bits := range []int{1024, 1031} {
		key := issuer.RSAKeyOf(bits, 0)
		kb := (key.RSA.N.BitLen() + 7) / 8
		fs := c07ShortFs(false)
		for h := chipsim.AASHA1; h <= chipsim.AASHA512; h++ {
			fs = append(fs, c07DigestLengthFs(r, h, base.aa.Nonce, true)...)
		}
		if bits != 1024 {
			fs = fs[:40] // the degenerate ones again under a modulus whose bit length is not a multiple of 8
		}
		for _, f := range fs {
			d := base.clone()
			d.files["dg15"] = der.T(0x6F, key.SPKI())
			d.aa.Algorithm = rsaOID
			d.aa.Signature = c07SignF(key.RSA, f.f).FillBytes(make([]byte, kb))
			out = append(out, c12Variant{label: fmt.Sprintf("rsa-%d-crafted-recovered-message:%s:F=%x", bits, c07FClass(f.name), f.f), mech: "AA", d: d})
		}
	}
	return out
}

func c12CraftedEvidenceCases(c *fw.Ctx, w *c12World) {
	vs := w.craftedVariants()
	const bundle = 8
	n := (len(vs) + bundle - 1) / bundle
	c.Cases(n, func(i int) string {
		return fmt.Sprintf("entry=activeauth.VerifyEvidence|family=evidence-crafted-recovered-message|first=%s|i=%d", vs[i*bundle].label, i)
	}, func(i int, k *fw.K) {
		w.evidenceBaseline()
		w.withLogging(k, func() {
			k.Nontrivial(fmt.Sprintf("evidence-crafted|%d", i))
			for _, v := range vs[i*bundle : min(len(vs), (i+1)*bundle)] {
				w.runVariant(k, v)
				if w.caseCPU > c12CaseCPUBudget {
					k.Count("bundles_cut_short_by_cpu_budget")
					break
				}
			}
		})
	})
}

// c12RandomChange applies one random change to the variant and names it.
func c12RandomChange(r *mrand.Rand, d *c12Doc, mech string) string {
	key := map[string]string{"CA": "dg14", "CAM": "cardSecurity", "AA": "dg15"}[mech]
	switch r.IntN(6) {
	case 0: // the key file gets a BER-family mutant of itself
		if f, ok := d.files[key]; ok {
			fam := c12BERFams[r.IntN(len(c12BERFams))].name
			if m := c12BERFamily(r, fam, f, f); m != nil {
				c12ClampClaims(m)
				d.files[key] = m
				return key + "-" + fam
			}
		}
		return "none"
	case 1: // another file mutated / dropped
		k2 := c12DocKeys[r.IntN(len(c12DocKeys))]
		if f, ok := d.files[k2]; ok {
			if r.IntN(3) == 0 {
				delete(d.files, k2)
				return "drop-" + k2
			}
			nf := mutate.Bytes(r, f)
			c12ClampClaims(nf)
			d.files[k2] = nf
			return "bytes-" + k2
		}
		return "none"
	case 2, 3, 4: // an evidence field
		var fields []*[]byte
		switch mech {
		case "CA":
			fields = []*[]byte{&d.ca.TermPri, &d.ca.TermPubKey, &d.ca.SmRapdu, &d.ca.SmSsc}
		case "CAM":
			e := d.cam
			fields = []*[]byte{&e.Nonce, &e.TermMapPri, &e.TermMapPub, &e.ChipMapPub, &e.TermKaPri, &e.TermKaPub, &e.ChipKaPub, &e.EcadIC}
		case "AA":
			fields = []*[]byte{&d.aa.Nonce, &d.aa.Signature}
		}
		i := r.IntN(len(fields))
		*fields[i] = c12BigField(r, *fields[i])
		return fmt.Sprintf("field%d", i)
	}
	switch mech {
	case "CAM":
		if r.IntN(2) == 0 {
			d.cam.ParameterId = []int{-1, 0, 1, 2, 8, 9, 10, 11, 12, 13, 14, 15, 16, 17, 18, 19, 20, 21, 1 << 20}[r.IntN(19)]
			return "parameter-id"
		}
		o := append(asn1.ObjectIdentifier{}, d.cam.PaceOid...)
		if len(o) > 0 {
			o[r.IntN(len(o))] = r.IntN(9) - 1
		}
		d.cam.PaceOid = o
		return "pace-oid"
	case "AA":
		o := append(asn1.ObjectIdentifier{}, d.aa.Algorithm...)
		if len(o) > 0 {
			o[r.IntN(len(o))] = r.IntN(9) - 1
		}
		d.aa.Algorithm = o
		return "algorithm"
	}
	d.ca.SmSsc = c12Rep(byte(r.Uint32()), r.IntN(40))
	return "ssc-length"
}

// evidenceBaseline: warm genuine measurements of the three VerifyEvidence functions.
func (w *c12World) evidenceBaseline() {
	if w.evBaseDone {
		return
	}
	w.evBaseDone = true
	for pass := 0; pass < 2; pass++ {
		for _, mech := range []string{"CA", "CAM", "AA"} {
			name := map[string]string{"CA": "chipauth.VerifyEvidence", "CAM": "pace.VerifyEvidence", "AA": "activeauth.VerifyEvidence"}[mech]
			b := &c12Base{}
			for _, d := range w.sessionsWith(mech) {
				doc, err := c12BuildDocument(d.files)
				if err != nil {
					fw.Bug("c12: constructors refuse a genuine document: %v", err)
				}
				var ok bool
				m := c12Measure(func() bool {
					switch mech {
					case "CA":
						res, err := chipauth.VerifyEvidence(doc, d.ca)
						ok = err == nil && res != nil && res.Success
					case "CAM":
						res, err := pace.VerifyEvidence(doc, d.cam)
						ok = err == nil && res != nil && res.Success
					case "AA":
						res, err := activeauth.VerifyEvidence(doc, d.aa)
						ok = err == nil && res != nil && res.Success
					}
					return ok
				})
				if !ok || m.panicked {
					// not this property's subject (C14 judges genuine evidence); the session is
					// simply not part of the baseline
					w.c.Note("c12_genuine_evidence_not_verifying_"+mech, fmt.Sprintf("panicked=%v %s", m.panicked, m.panicVal))
					continue
				}
				if m.alloc > b.alloc {
					b.alloc = m.alloc
				}
				if m.cpu > b.cpu {
					b.cpu = m.cpu
				}
			}
			w.base[name] = b
		}
	}
	// the harness's own CBOR writer must produce what the library reads
	for i, d := range w.docs() {
		if _, _, err := document.UnmarshalVerifiableDoc(d.exCbor()); err != nil {
			fw.Bug("c12: the library does not read the harness's re-encoding of genuine export %d: %v", i, err)
		}
	}
}
