package checks

import (
	"fmt"
	mrand "math/rand/v2"

	"github.com/gmrtd/gmrtd/document"
	"github.com/gmrtd/gmrtd/passiveauth"

	"verifharness/ecref"
	"verifharness/fw"
	"verifharness/issuer"
)

// C09, structural BER dimension: WHICH constructed elements of the EF.SOD SignedData use the
// indefinite-length form. The base cases (c09.go) always rewrite the outermost SEQUENCE and a
// random subset below it; here the set of levels is chosen explicitly - every single level
// alone, named combinations that real BER encoders produce (streaming containers with and
// without the outermost one), and random subsets of every density, two thirds of them with a
// definite outermost SEQUENCE.
//
// What is demanded (c09BerRequired): acceptance of every object whose indefinite levels are
//   - not the signed attributes (RFC 5652 5.3: signedAttrs MUST be DER even when the rest is
//     BER, so a conforming issuer never produces them otherwise), and
//   - not exclusively inside a value the CMS reader captures raw (the issuer Name inside a
//     definite issuerAndSerialNumber): document/sod.go documents the normalisation as a retry
//     "only attempted if the initial parse fails", and such an object passes the initial parse;
//   - with a primitive eContent OCTET STRING (the constructed form is a different BER feature
//     than the length form the property names; the library does not claim it).
// The other objects are generated as well and their outcome is counted, never judged.
// EF.CardSecurity is parsed without the retry (document/card_security.go; ICAO 9303 requires
// DER for it), so BER forms of it are observation only, too.

// levels that a first encoding/asn1 pass does not look into when everything around them
// is definite
const c09HiddenLevels = issuer.CMSLevels(0) // none exempt: the sidName-only shape is a recorded finding (known_findings.json)

const c09ConformingLevels = issuer.LvAll &^ issuer.LvSignedAttrsAny

func c09BerRequired(p c09Profile, applied issuer.CMSLevels) (bool, string) {
	switch {
	case p.berSeg != 0:
		return false, "constructed-econtent"
	case applied&issuer.LvSignedAttrsAny != 0:
		return false, "non-der-signed-attributes"
	case applied != 0 && applied&^c09HiddenLevels == 0:
		return false, "only-inside-raw-captured-value"
	}
	return true, ""
}

// c09BerShape names the class of a level set for violation keys: the level itself when it
// is alone, otherwise whether the outermost SEQUENCE is definite.
func c09BerShape(applied issuer.CMSLevels) string {
	switch {
	case applied == 0:
		return "none"
	case applied.Count() == 1:
		return "single:" + applied.String()
	case applied&issuer.LvContentInfo == 0:
		return "multi:outer-definite"
	}
	return "multi:outer-indefinite"
}

func c09BerSODRejected(k *fw.K, p c09Profile, d *c09Doc, err error) {
	if !d.berRequired {
		k.Count("berlevel_observe_only_rejected:" + d.berWhy)
		return
	}
	k.Violation("pa:genuine-sod-rejected:ber-levels:"+c09BerShape(d.berApplied),
		fmt.Sprintf("NewSOD rejects a correctly issued security object with indefinite lengths on %s: %v", d.berApplied, err),
		map[string]any{"profile": p.String(), "levels": d.berApplied.String(), "sod": hexCap(d.sod, 4000)})
}

func c09ObserveBERCardSecurity(k *fw.K, cs []byte, mask issuer.CMSLevels) {
	out, app := issuer.IndefiniteLevels(cs, mask)
	if app == 0 {
		return
	}
	if obj, err := document.NewCardSecurity(out); err != nil || obj == nil {
		k.Count("cardsecurity_ber_rejected_observe_only")
	} else {
		k.Count("cardsecurity_ber_parsed_observe_only")
	}
}

type c09BerItem struct {
	mask  issuer.CMSLevels
	ski   int // -1 random, 0 issuerAndSerialNumber, 1 subjectKeyIdentifier
	seg   int
	label string
}

// c09BerPlan is a pure function of (seed, tier).
func c09BerPlan(c *fw.Ctx) []c09BerItem {
	var items []c09BerItem
	// every level alone, under both signer-identifier forms
	for b := 0; b < issuer.NumCMSLevels; b++ {
		for ski := 0; ski < 2; ski++ {
			items = append(items, c09BerItem{mask: 1 << b, ski: ski, label: "single"})
		}
	}
	// shapes of real encoders
	streaming := issuer.LvContentInfo | issuer.LvContent0 | issuer.LvSignedData | issuer.LvEncap | issuer.LvEContent0
	named := []issuer.CMSLevels{
		issuer.LvContent0 | issuer.LvSignedData,
		c09ConformingLevels &^ issuer.LvContentInfo,
		c09ConformingLevels,
		streaming,
		streaming &^ issuer.LvContentInfo,
		streaming | issuer.LvCertSet | issuer.LvSignerInfos,
		(streaming | issuer.LvCertSet | issuer.LvSignerInfos) &^ issuer.LvContentInfo,
		issuer.LvSignerInfos | issuer.LvSignerInfo | issuer.LvSID | issuer.LvSIDName,
		issuer.LvSID | issuer.LvSIDName,
		issuer.LvSIDName | issuer.LvSigAlg,
		issuer.LvSIDName | issuer.LvSigAlgParams,
		issuer.LvCertSet | issuer.LvSignerInfos,
		issuer.LvDigestAlgSet | issuer.LvDigestAlgID | issuer.LvSIDigestAlg | issuer.LvSigAlg | issuer.LvSigAlgParams,
		issuer.LvEncap | issuer.LvEContent0,
		issuer.LvAll,
		issuer.LvAll &^ issuer.LvContentInfo,
	}
	for j, m := range named {
		items = append(items, c09BerItem{mask: m, ski: j % 2, label: "named"}, c09BerItem{mask: m, ski: 1 - j%2, label: "named"})
	}
	// random subsets
	prng := c.PlanRNG("c09-ber-levels")
	nr := c.Pick(64, 8000)
	for j := 0; j < nr; j++ {
		dens := []int{12, 25, 50, 75}[j%4]
		var m issuer.CMSLevels
		for b := 0; b < issuer.NumCMSLevels; b++ {
			if prng.IntN(100) < dens {
				m |= 1 << b
			}
		}
		if j%6 != 5 {
			m &= c09ConformingLevels
		}
		if j%3 != 2 {
			m &^= issuer.LvContentInfo
		}
		if m == 0 {
			m = []issuer.CMSLevels{issuer.LvContent0, issuer.LvSignedData, issuer.LvEncap, issuer.LvSignerInfos}[prng.IntN(4)]
		}
		items = append(items, c09BerItem{mask: m, ski: -1, label: "random"})
	}
	// constructed eContent (observation only)
	ns := c.Pick(8, 400)
	segMasks := []issuer.CMSLevels{0, issuer.LvEContent0, streaming, c09ConformingLevels}
	for j := 0; j < ns; j++ {
		items = append(items, c09BerItem{mask: segMasks[j%4], ski: -1, seg: 1 + (j/4)%2, label: "segmented"})
	}
	return items
}

var c09CheapKinds []int

func c09Cheap() []int {
	if c09CheapKinds == nil {
		c09CheapKinds = []int{0}
		for i, cv := range ecref.All() {
			switch cv.Name {
			case "P-256", "brainpoolP256r1", "P-224", "brainpoolP224r1":
				c09CheapKinds = append(c09CheapKinds, i+3)
			}
		}
	}
	return c09CheapKinds
}

// c09CheapProfile keeps every harmless-variation dimension of a random profile and replaces
// the key kinds by inexpensive ones (RSA-2048 with PKCS#1 v1.5 or PSS, 224/256-bit curves):
// the dimension under test is structural, the key matrix is the base cases' job. In the
// thorough tier every fourth case keeps the stratified kinds.
func c09CheapProfile(r *mrand.Rand, i int, keepSome bool) c09Profile {
	p := c09RandProfile(r, i)
	if !(keepSome && i%4 == 0) {
		ck := c09Cheap()
		p.cscaKind = ck[i%len(ck)]
		p.dsKind = ck[(i/len(ck))%len(ck)]
	}
	p.ber = false
	return p
}

func c09BerCase(c *fw.Ctx, k *fw.K, i int, it c09BerItem) {
	r := k.RNG
	p := c09CheapProfile(r, i, c.Thorough())
	p.berLevels, p.berMask, p.berSeg = true, it.mask, it.seg
	if it.ski >= 0 {
		p.bySKI = it.ski == 1
	}
	if it.label != "random" && it.mask&issuer.LvSigAlgParams != 0 && it.mask.Count() <= 5 {
		// the parameter level only exists for RSASSA-PSS
		p.dsKind, p.dsPSS = 0, true
	}
	p.cardSecurity = r.IntN(2) == 0
	if p.cardSecurity && r.IntN(2) == 0 {
		for p.csMask == 0 {
			p.csMask = issuer.CMSLevels(r.Uint32()) & c09ConformingLevels
		}
	}
	k.Nontrivial(p.String())
	d := c09Build(k, r, p)
	if d == nil {
		return
	}
	k.Count("berlevel_documents")
	k.Count("berlevel_" + it.label)
	m3class := d.berRequired && d.berApplied != 0 && d.berApplied&issuer.LvContentInfo == 0
	if m3class {
		k.Count("berlevel_outer_definite_inner_indefinite")
	}
	if d.berRequired {
		for b := 0; b < issuer.NumCMSLevels; b++ {
			if d.berApplied&(1<<b) != 0 {
				k.Count("berlevel_required_with_" + issuer.CMSLevelName(b))
			}
		}
	}
	res, err := passiveauth.PassiveAuth(d.doc, trustPool(d.trust))
	if err != nil || res == nil || !res.Success {
		if !d.berRequired {
			k.Count("berlevel_observe_only_rejected:" + d.berWhy)
			return
		}
		k.Violation("pa:genuine-rejected:ber-levels:"+c09BerShape(d.berApplied)+c09Why(p, err),
			fmt.Sprintf("passive authentication fails on a correctly issued document whose EF.SOD uses indefinite lengths on %s: %v", d.berApplied, err),
			map[string]any{"profile": p.String(), "levels": d.berApplied.String(), "sod": hexCap(d.sod, 4000)})
		return
	}
	if p.cardSecurity && res.CardSec == nil {
		k.Violation("pa:cardsecurity-not-verified", "CardSecurity present but its verification is not recorded", map[string]any{"profile": p.String()})
		return
	}
	if !d.berRequired {
		k.Count("berlevel_observe_only_accepted:" + d.berWhy)
		return
	}
	k.Count("berlevel_accepted")
	if m3class {
		k.Count("berlevel_accepted_outer_definite_inner_indefinite")
	}
	if p.cardSecurity {
		k.Count("berlevel_accepted_with_der_cardsecurity")
	}
	if i%40 == 0 {
		k.Sample("ber-levels", map[string]any{"profile": p.String(), "levels": d.berApplied.String(), "sod_bytes": len(d.sod)})
	}
}
