package checks

import (
	"bytes"
	"fmt"
	"math/big"
	mrand "math/rand/v2"
	"sort"
	"strings"

	"github.com/gmrtd/gmrtd/document"
	"github.com/gmrtd/gmrtd/passiveauth"

	"verifharness/ecref"
	"verifharness/fw"
	"verifharness/issuer"
	"verifharness/ldsgen"
)

// C09, dimension "the issuer name of the signer identifier is a NAME, not a byte string":
// the base cases use one fixed four-attribute CSCA name in which every attribute type occurs
// once, and permute two attributes of different types. Real CSCA names repeat types (two or
// three OUs, two Os, DC=..,DC=..), hold multi-valued RDNs and run to ten attributes. Here the
// issuer name of the document signer certificate is drawn from such shapes, the issuer of the
// issuerAndSerialNumber signer identifier lists the same attributes in another order
// (reversed, rotated, shuffled, only two attributes of one type exchanged) and/or with other
// string types / letter case / insignificant whitespace, and the security object embeds one
// to three further certificates next to the signer's: an unrelated document signer, the CSCA
// certificate, a sibling (same issuer, other serial) and a certificate with the SAME serial
// from another issuer whose name is unrelated or a near miss of the genuine one (one value
// changed, one attribute fewer, one attribute more, one of two same-type values replaced by a
// copy of the other). Oracle: the document is genuine (exactly one embedded certificate has
// the identified issuer and serial - self-checked with a reference comparison that does not
// use the library), so PassiveAuth succeeds.

var (
	c09OIDState    = []int{2, 5, 4, 8}
	c09OIDLocality = []int{2, 5, 4, 7}
	c09OIDDC       = []int{0, 9, 2342, 19200300, 100, 1, 25}
)

var c09NameWords = []string{"Travel Documents", "Passport Office", "Identity Services", "Border Agency", "Civil Registry", "Consular Affairs",
	"National Printing Office", "Ministry of Interior", "Ministry of Foreign Affairs", "Federal Police", "Population Register", "E-Passport PKI"}

type c09NameShape struct {
	label string
	build func(r *mrand.Rand, cc [2]string) issuer.Name
}

// c09NameShapes: every shape holds exactly one countryName attribute (the library derives
// the document's country from it; two would make the country a matter of interpretation).
var c09NameShapes = []c09NameShape{
	{"two-ou", func(r *mrand.Rand, cc [2]string) issuer.Name {
		w := c09Words(r, 3)
		return issuer.Name{c09C(cc), c09A(r, issuer.OIDOrg, w[0]), c09A(r, issuer.OIDOrgUnit, w[1]), c09A(r, issuer.OIDOrgUnit, w[2]), c09A(r, issuer.OIDCN, "CSCA "+cc[0])}
	}},
	{"three-ou", func(r *mrand.Rand, cc [2]string) issuer.Name {
		w := c09Words(r, 4)
		return issuer.Name{c09C(cc), c09A(r, issuer.OIDOrg, w[0]), c09A(r, issuer.OIDOrgUnit, w[1]), c09A(r, issuer.OIDOrgUnit, w[2]), c09A(r, issuer.OIDOrgUnit, w[3]), c09A(r, issuer.OIDCN, "CSCA "+cc[0])}
	}},
	{"two-o", func(r *mrand.Rand, cc [2]string) issuer.Name {
		w := c09Words(r, 2)
		return issuer.Name{c09C(cc), c09A(r, issuer.OIDOrg, w[0]), c09A(r, issuer.OIDOrg, w[1]), c09A(r, issuer.OIDCN, "CSCA "+cc[0])}
	}},
	{"ou-prefixes", func(r *mrand.Rand, cc [2]string) issuer.Name {
		w := c09Words(r, 2)
		ous := []string{"Travel", "Travel Documents", "Travel Documents Office"}
		r.Shuffle(len(ous), func(a, b int) { ous[a], ous[b] = ous[b], ous[a] })
		return issuer.Name{c09C(cc), c09A(r, issuer.OIDOrg, w[0]), c09A(r, issuer.OIDOrgUnit, ous[0]), c09A(r, issuer.OIDOrgUnit, ous[1]), c09A(r, issuer.OIDOrgUnit, ous[2]), c09A(r, issuer.OIDCN, "CSCA "+cc[0])}
	}},
	{"ou-equal-repeated", func(r *mrand.Rand, cc [2]string) issuer.Name {
		w := c09Words(r, 3)
		ou := c09A(r, issuer.OIDOrgUnit, w[1])
		return issuer.Name{c09C(cc), c09A(r, issuer.OIDOrg, w[0]), ou, ou, c09A(r, issuer.OIDOrgUnit, w[2]), c09A(r, issuer.OIDCN, "CSCA "+cc[0])}
	}},
	{"ou-equal-after-folding", func(r *mrand.Rand, cc [2]string) issuer.Name {
		w := c09Words(r, 3)
		return issuer.Name{c09C(cc), c09A(r, issuer.OIDOrg, w[0]), {OID: issuer.OIDOrgUnit, Value: w[1], Tag: 0x13}, {OID: issuer.OIDOrgUnit, Value: strings.ToUpper(w[1]), Tag: 0x0C},
			c09A(r, issuer.OIDOrgUnit, w[2]), c09A(r, issuer.OIDCN, "CSCA "+cc[0])}
	}},
	{"two-dc", func(r *mrand.Rand, cc [2]string) issuer.Name {
		w := c09Words(r, 1)
		return issuer.Name{{OID: c09OIDDC, Value: strings.ToLower(cc[1]), Tag: 0x16}, {OID: c09OIDDC, Value: "gov", Tag: 0x16}, {OID: c09OIDDC, Value: "epassport", Tag: 0x16},
			c09C(cc), c09A(r, issuer.OIDOrg, w[0]), c09A(r, issuer.OIDCN, "CSCA "+cc[0])}
	}},
	{"same-type-apart", func(r *mrand.Rand, cc [2]string) issuer.Name {
		w := c09Words(r, 3)
		return issuer.Name{c09A(r, issuer.OIDOrgUnit, w[1]), c09A(r, issuer.OIDOrg, w[0]), c09A(r, issuer.OIDOrgUnit, w[2]), c09C(cc), c09A(r, issuer.OIDCN, "CSCA "+cc[0])}
	}},
	{"two-cn", func(r *mrand.Rand, cc [2]string) issuer.Name {
		w := c09Words(r, 1)
		return issuer.Name{c09C(cc), c09A(r, issuer.OIDOrg, w[0]), c09A(r, issuer.OIDCN, "CSCA "+cc[0]), c09A(r, issuer.OIDCN, "CSCA "+cc[0]+" 2")}
	}},
	{"long-repeated", func(r *mrand.Rand, cc [2]string) issuer.Name {
		w := c09Words(r, 5)
		n := issuer.Name{c09C(cc), c09A(r, c09OIDState, "Capital Region"), c09A(r, c09OIDLocality, "Capital City"), c09A(r, issuer.OIDOrg, w[0]), c09A(r, issuer.OIDOrg, w[1]),
			c09A(r, issuer.OIDOrgUnit, w[2]), c09A(r, issuer.OIDOrgUnit, w[3]), c09A(r, issuer.OIDOrgUnit, w[4]), {OID: issuer.OIDSerial, Value: fmt.Sprintf("%03d", 1+r.IntN(99))}, c09A(r, issuer.OIDCN, "CSCA "+cc[0])}
		return n[:8+r.IntN(3)] // 8, 9 or 10 attributes (the repeated O and OU stay)
	}},
	{"long-distinct", func(r *mrand.Rand, cc [2]string) issuer.Name {
		w := c09Words(r, 2)
		return issuer.Name{c09C(cc), c09A(r, c09OIDState, "Capital Region"), c09A(r, c09OIDLocality, "Capital City"), c09A(r, issuer.OIDOrg, w[0]), c09A(r, issuer.OIDOrgUnit, w[1]),
			{OID: issuer.OIDSerial, Value: fmt.Sprintf("%03d", 1+r.IntN(99))}, {OID: c09OIDDC, Value: "gov", Tag: 0x16}, c09A(r, issuer.OIDCN, "CSCA "+cc[0])}
	}},
	{"multivalued-distinct-types", func(r *mrand.Rand, cc [2]string) issuer.Name {
		w := c09Words(r, 2)
		cn := c09A(r, issuer.OIDCN, "CSCA "+cc[0])
		cn.Plus = true
		return issuer.Name{c09C(cc), c09A(r, issuer.OIDOrg, w[0]), c09A(r, issuer.OIDOrgUnit, w[1]), cn}
	}},
	{"multivalued-same-type", func(r *mrand.Rand, cc [2]string) issuer.Name {
		w := c09Words(r, 3)
		ou2 := c09A(r, issuer.OIDOrgUnit, w[2])
		ou2.Plus = true
		return issuer.Name{c09C(cc), c09A(r, issuer.OIDOrg, w[0]), c09A(r, issuer.OIDOrgUnit, w[1]), ou2, c09A(r, issuer.OIDCN, "CSCA "+cc[0])}
	}},
	{"multivalued-and-repeated", func(r *mrand.Rand, cc [2]string) issuer.Name {
		w := c09Words(r, 4)
		cn := c09A(r, issuer.OIDCN, "CSCA "+cc[0])
		cn.Plus = true
		return issuer.Name{c09C(cc), c09A(r, issuer.OIDOrg, w[0]), c09A(r, issuer.OIDOrgUnit, w[1]), c09A(r, issuer.OIDOrgUnit, w[2]), cn, c09A(r, issuer.OIDOrgUnit, w[3])}
	}},
}

func c09C(cc [2]string) issuer.RDNAttr { return issuer.RDNAttr{OID: issuer.OIDCountry, Value: cc[1]} }

func c09A(r *mrand.Rand, oid []int, v string) issuer.RDNAttr {
	return issuer.RDNAttr{OID: oid, Value: v, Tag: []byte{0x13, 0x0C}[r.IntN(2)]}
}

// c09Words draws n different words.
func c09Words(r *mrand.Rand, n int) []string {
	p := r.Perm(len(c09NameWords))
	out := make([]string, n)
	for i := range out {
		out[i] = c09NameWords[p[i]]
	}
	return out
}

// ---- RDN groups (an attribute with Plus belongs to the group of its predecessor)

func c09Groups(n issuer.Name) [][]issuer.RDNAttr {
	var g [][]issuer.RDNAttr
	for _, a := range n {
		if a.Plus && len(g) > 0 {
			g[len(g)-1] = append(g[len(g)-1], a)
			continue
		}
		a.Plus = false
		g = append(g, []issuer.RDNAttr{a})
	}
	return g
}

func c09Ungroup(g [][]issuer.RDNAttr) issuer.Name {
	var n issuer.Name
	for _, grp := range g {
		for j, a := range grp {
			a.Plus = j > 0
			n = append(n, a)
		}
	}
	return n
}

func c09OIDStr(oid []int) string { return fmt.Sprint(oid) }

// c09Fold: the caseIgnoreMatch normal form for the ASCII values generated here.
func c09Fold(s string) string { return strings.ToLower(strings.Join(strings.Fields(s), " ")) }

// c09NameKey is the reference notion of "the same name up to attribute order, string type,
// letter case and insignificant whitespace": the sorted multiset of (type, folded value).
func c09NameKey(n issuer.Name) string {
	var parts []string
	for _, a := range n {
		parts = append(parts, c09OIDStr(a.OID)+"="+c09Fold(a.Value))
	}
	sort.Strings(parts)
	return strings.Join(parts, "|")
}

// c09SameTypeOrderChanged: some attribute type occurs more than once and its values appear
// in another relative order in b than in a.
func c09SameTypeOrderChanged(a, b issuer.Name) bool {
	seq := func(n issuer.Name) map[string][]string {
		m := map[string][]string{}
		for _, x := range n {
			m[c09OIDStr(x.OID)] = append(m[c09OIDStr(x.OID)], c09Fold(x.Value))
		}
		return m
	}
	ma, mb := seq(a), seq(b)
	for t, va := range ma {
		if len(va) > 1 && strings.Join(va, "|") != strings.Join(mb[t], "|") {
			return true
		}
	}
	return false
}

var c09NameOrders = []string{"identical", "reversed", "rotated", "shuffled", "same-type-pair-swapped"}

// c09Reorder returns the name with its RDNs in another order.
func c09Reorder(r *mrand.Rand, n issuer.Name, order int) issuer.Name {
	g := c09Groups(n)
	ng := len(g)
	out := make([][]issuer.RDNAttr, ng)
	copy(out, g)
	switch order {
	case 1:
		for i := range g {
			out[ng-1-i] = g[i]
		}
	case 2:
		k := 1 + r.IntN(ng-1)
		for i := range g {
			out[(i+k)%ng] = g[i]
		}
	case 3:
		p := r.Perm(ng)
		ident := true
		for i, v := range p {
			ident = ident && i == v
		}
		if ident {
			p[0], p[ng-1] = p[ng-1], p[0]
		}
		for i := range g {
			out[p[i]] = g[i]
		}
	case 4:
		// exchange two RDNs that start with the same attribute type and nothing else; when
		// the shape has no such pair, two RDNs drawn at random
		var pairs [][2]int
		for i := 0; i < ng; i++ {
			for j := i + 1; j < ng; j++ {
				if c09OIDStr(g[i][0].OID) == c09OIDStr(g[j][0].OID) {
					pairs = append(pairs, [2]int{i, j})
				}
			}
		}
		a, b := r.IntN(ng), 0
		if len(pairs) > 0 {
			pr := pairs[r.IntN(len(pairs))]
			a, b = pr[0], pr[1]
		} else {
			b = (a + 1 + r.IntN(ng-1)) % ng
		}
		out[a], out[b] = out[b], out[a]
	}
	return c09Ungroup(out)
}

var c09NameStrVars = []string{"as-certificate", "other-string-type", "other-letter-case", "extra-whitespace", "mixed"}

// c09Respell changes how values are written without changing the name: string type
// (PrintableString / UTF8String / BMPString; IA5String -> UTF8String), letter case, whitespace.
func c09Respell(r *mrand.Rand, n issuer.Name, strvar int) issuer.Name {
	out := append(issuer.Name{}, n...)
	if strvar == 0 {
		return out
	}
	forced := r.IntN(len(out))
	for i := range out {
		if i != forced && r.IntN(2) == 0 {
			continue
		}
		v := strvar
		if v == 4 {
			v = 1 + r.IntN(3)
		}
		isC := c09OIDStr(out[i].OID) == c09OIDStr(issuer.OIDCountry)
		if isC {
			v = 1 // the country code keeps its spelling; only the string type varies
		}
		switch v {
		case 1:
			tag := out[i].Tag
			if tag == 0 {
				tag = 0x13
			}
			switch {
			case r.IntN(4) == 0 && !isC:
				out[i].Tag = 0x1E
			case tag == 0x13:
				out[i].Tag = 0x0C
			case tag == 0x0C:
				out[i].Tag = 0x13
			default:
				out[i].Tag = 0x0C
			}
		case 2:
			if up := strings.ToUpper(out[i].Value); up != out[i].Value && r.IntN(2) == 0 {
				out[i].Value = up
			} else {
				out[i].Value = strings.ToLower(out[i].Value)
			}
		case 3:
			out[i].Value = strings.Repeat(" ", r.IntN(3)) + strings.ReplaceAll(out[i].Value, " ", strings.Repeat(" ", 2+r.IntN(2))) + strings.Repeat(" ", 1+r.IntN(2))
		}
	}
	return out
}

var c09NameExtraKinds = []string{"unrelated-ds", "csca", "sibling-other-serial", "same-serial-other-issuer"}

var c09NearMissKinds = []string{"unrelated", "one-value-changed", "one-attribute-fewer", "one-attribute-repeated-once-more", "same-type-value-copied"}

// c09NearMissName returns the name of another issuer. Kinds 1..4 stay close to the genuine
// name; the result is never the same name (reference key) - otherwise the unrelated form.
func c09NearMissName(r *mrand.Rand, n issuer.Name, cc [2]string, kind int) (issuer.Name, int) {
	unrelated := issuer.Name{c09C(cc), {OID: issuer.OIDOrg, Value: "Agency for Other Certificates", Tag: 0x0C}, {OID: issuer.OIDCN, Value: fmt.Sprintf("Other CSCA %s %d", cc[0], r.IntN(1000)), Tag: 0x0C}}
	out := append(issuer.Name{}, n...)
	isC := func(a issuer.RDNAttr) bool { return c09OIDStr(a.OID) == c09OIDStr(issuer.OIDCountry) }
	// attributes that may be touched: not the country
	var idx []int
	for i, a := range out {
		if !isC(a) {
			idx = append(idx, i)
		}
	}
	// indices whose type occurs more than once (preferred: that is where a comparison can slip)
	cnt := map[string]int{}
	for _, a := range out {
		cnt[c09OIDStr(a.OID)]++
	}
	var rep []int
	for _, i := range idx {
		if cnt[c09OIDStr(out[i].OID)] > 1 {
			rep = append(rep, i)
		}
	}
	pick := func() int {
		if len(rep) > 0 && r.IntN(4) != 0 {
			return rep[r.IntN(len(rep))]
		}
		return idx[r.IntN(len(idx))]
	}
	switch kind {
	case 1:
		i := pick()
		out[i].Value += []string{" II", "s", " 2"}[r.IntN(3)]
	case 2:
		i := pick()
		if out[i].Plus || (i+1 < len(out) && out[i+1].Plus) {
			out[i].Value += " II" // member of a multi-valued RDN: change it instead
		} else {
			out = append(out[:i:i], out[i+1:]...)
		}
	case 3:
		i := pick()
		dup := out[i]
		dup.Plus = false
		j := r.IntN(len(out) + 1)
		for j < len(out) && out[j].Plus {
			j++
		}
		out = append(out[:j:j], append(issuer.Name{dup}, out[j:]...)...)
	case 4:
		done := false
		for _, i := range r.Perm(len(out)) {
			for _, j := range r.Perm(len(out)) {
				if i != j && !done && c09OIDStr(out[i].OID) == c09OIDStr(out[j].OID) && c09Fold(out[i].Value) != c09Fold(out[j].Value) {
					out[i].Value, out[i].Tag = out[j].Value, out[j].Tag
					done = true
				}
			}
		}
		if !done {
			i := pick()
			out[i].Value += " II"
			kind = 1
		}
	default:
		return unrelated, 0
	}
	if c09NameKey(out) == c09NameKey(n) {
		return unrelated, 0
	}
	return out, kind
}

type c09NamePlan struct {
	shape, order, strvar int
	extras               int // number of additional embedded certificates
	firstKind            int // kind of the first additional certificate
}

func (p c09NamePlan) String() string {
	s := fmt.Sprintf("shape=%s sid-order=%s spelling=%s extra-certs=%d", c09NameShapes[p.shape].label, c09NameOrders[p.order], c09NameStrVars[p.strvar], p.extras)
	if p.extras > 0 {
		s += " first=" + c09NameExtraKinds[p.firstKind]
	}
	return s
}

// c09NamePlanOf is a pure function of the case index: shape x order enumerated (one block =
// every pair), the number of additional certificates cycles 1,2,0,3 per block, spelling and
// the kind of the first additional certificate cycle with co-prime periods.
func c09NamePlanOf(i int) c09NamePlan {
	ns, no := len(c09NameShapes), len(c09NameOrders)
	p := c09NamePlan{shape: i % ns, order: (i / ns) % no}
	j := i / (ns * no)
	p.extras = []int{1, 2, 0, 3}[j%4]
	p.strvar = []int{0, 1, 0, 4, 2, 0, 3}[(i+j)%7] // the spelling of the certificate three times in seven
	p.firstKind = (i + i/ns + j/4) % len(c09NameExtraKinds)
	return p
}

func c09NamesCase(k *fw.K, i int) {
	r := k.RNG
	pl := c09NamePlanOf(i)
	cc := c09Countries[r.IntN(len(c09Countries))]
	bySKI := r.IntN(6) == 0
	withCS := r.IntN(3) == 0
	digest := issuer.AllHashes[r.IntN(5)]
	certHash := issuer.AllHashes[1+r.IntN(4)]
	// inexpensive keys: 256-bit curves, RSA-2048 once in eight
	keyOf := func() *issuer.Key {
		switch r.IntN(8) {
		case 0:
			return issuer.RSAKeyOf(2048, r.IntN(issuer.RSAKeyCount(2048)))
		case 1, 2:
			return issuer.NewECKey(r, ecref.ByName("brainpoolP256r1"))
		}
		return issuer.NewECKey(r, ecref.ByName("P-256"))
	}
	cscaName := c09NameShapes[pl.shape].build(r, cc)
	dsName := issuer.SimpleName(cc[1], "Ministry of Interior", "DS 1")
	if r.IntN(3) == 0 { // the subject of the signer may repeat types as well
		dsName = issuer.Name{c09C(cc), c09A(r, issuer.OIDOrg, "Ministry of Interior"), c09A(r, issuer.OIDOrgUnit, "Document Signers"), c09A(r, issuer.OIDOrgUnit, "Production"), c09A(r, issuer.OIDCN, "DS 1")}
	}
	cscaKey := keyOf()
	dsKey := keyOf()
	for bytes.Equal(dsKey.KeyID(), cscaKey.KeyID()) { // two draws from the small pool of stored RSA keys may coincide
		dsKey = keyOf()
	}
	o := issuer.PKIOpts{Country: cc[1], CSCAKey: cscaKey, DSKey: dsKey, CSCAPSS: r.IntN(2) == 0, DSPSS: r.IntN(2) == 0, CertHash: certHash, CSCAName: cscaName, DSName: dsName}
	pki := issuer.NewPKI(r, o)
	trust := [][]byte{pki.CSCACert}

	// the issuer of the signer identifier: same name, other order and/or spelling
	sidName := c09Respell(r, c09Reorder(r, cscaName, pl.order), pl.strvar)
	genuineKey := c09NameKey(cscaName)
	if c09NameKey(sidName) != genuineKey {
		fw.Bug("c09 names: the signer identifier's issuer is not the certificate's issuer: %s", pl)
	}
	sidDiffers := !bytes.Equal(sidName.DER(), cscaName.DER())
	sameTypeMoved := c09SameTypeOrderChanged(cscaName, sidName)
	multiValued := len(c09Groups(cscaName)) != len(cscaName)

	// additional embedded certificates
	type embedded struct {
		der    []byte
		issuer issuer.Name
		serial *big.Int
		ski    []byte
	}
	certs := []embedded{{pki.DSCert, cscaName, pki.DSSerial, pki.DSKey.KeyID()}}
	var kinds []string
	otherCA := func(name issuer.Name) (issuer.CertSpec, *issuer.Key) {
		k2 := issuer.NewECKey(r, ecref.ByName("P-256"))
		cs2 := pki.CSCASpec
		cs2.Serial = new(big.Int).Add(cs2.Serial, big.NewInt(int64(1+r.IntN(1000))))
		cs2.Issuer, cs2.Subject, cs2.Key, cs2.SKI, cs2.AKI = name, name, k2, k2.KeyID(), k2.KeyID()
		cs2.Scheme, cs2.Hash = issuer.ECDSA, issuer.SHA256
		if r.IntN(2) == 0 { // the other authority may be an anchor of the store as well
			c := issuer.BuildCert(r, cs2, k2)
			if r.IntN(2) == 0 {
				trust = append(trust, c)
			} else {
				trust = append([][]byte{c}, trust...)
			}
		}
		return cs2, k2
	}
	nearMiss, hasCSCA := "", false
	for e := 0; e < pl.extras; e++ {
		kind := pl.firstKind
		if e > 0 {
			kind = r.IntN(len(c09NameExtraKinds))
		}
		if kind == 1 && hasCSCA {
			kind = 2 // the CSCA certificate once only (a second copy would be the same certificate twice)
		}
		hasCSCA = hasCSCA || kind == 1
		kinds = append(kinds, c09NameExtraKinds[kind])
		ek := issuer.NewECKey(r, ecref.ByName("P-256"))
		spec := pki.DSSpec
		spec.Key, spec.SKI = ek, ek.KeyID()
		spec.Subject = issuer.SimpleName(cc[1], "Ministry of Interior", fmt.Sprintf("DS additional %d", e))
		switch kind {
		case 0: // a document signer of another authority of the same country, its own serial
			n2, _ := c09NearMissName(r, cscaName, cc, 0)
			cs2, k2 := otherCA(n2)
			spec.Issuer, spec.AKI, spec.Scheme, spec.Hash = n2, k2.KeyID(), cs2.Scheme, cs2.Hash
			spec.Serial = new(big.Int).Add(pki.DSSerial, big.NewInt(int64(1000+r.IntN(100000))))
			certs = append(certs, embedded{issuer.BuildCert(r, spec, k2), n2, spec.Serial, spec.SKI})
		case 1:
			certs = append(certs, embedded{pki.CSCACert, cscaName, pki.CSCASpec.Serial, pki.CSCASpec.SKI})
		case 2: // same issuer, neighbouring or distant serial
			d := int64(1 + r.IntN(3))
			if r.IntN(2) == 0 {
				d = int64(1000 + r.IntN(100000))
			}
			if r.IntN(2) == 0 && pki.DSSerial.Cmp(big.NewInt(d)) > 0 {
				d = -d
			}
			spec.Serial = new(big.Int).Add(pki.DSSerial, big.NewInt(d))
			for _, c := range certs {
				if c.serial.Cmp(spec.Serial) == 0 {
					spec.Serial = new(big.Int).Add(spec.Serial, big.NewInt(int64(200000+e)))
				}
			}
			certs = append(certs, embedded{issuer.BuildCert(r, spec, pki.CSCAKey), cscaName, spec.Serial, spec.SKI})
		case 3: // the signer's serial under another issuer
			n2, nk := c09NearMissName(r, cscaName, cc, r.IntN(len(c09NearMissKinds)))
			for _, c := range certs { // two additional certificates must not be the same (issuer, serial) either
				if c.serial.Cmp(pki.DSSerial) == 0 && c09NameKey(c.issuer) == c09NameKey(n2) {
					n2, nk = c09NearMissName(r, cscaName, cc, 0)
				}
			}
			nearMiss = c09NearMissKinds[nk]
			cs2, k2 := otherCA(n2)
			spec.Issuer, spec.AKI, spec.Scheme, spec.Hash = n2, k2.KeyID(), cs2.Scheme, cs2.Hash
			certs = append(certs, embedded{issuer.BuildCert(r, spec, k2), n2, spec.Serial, spec.SKI})
		}
	}
	// position of the signer's certificate among them
	r.Shuffle(len(certs), func(a, b int) { certs[a], certs[b] = certs[b], certs[a] })
	// self-check of the generator (no library involved): exactly one embedded certificate has
	// the issuer (as a name) and the serial of the signer identifier, and exactly one its key identifier
	matches, skiMatches := 0, 0
	var certDERs [][]byte
	for _, c := range certs {
		certDERs = append(certDERs, c.der)
		if c.serial.Cmp(pki.DSSerial) == 0 && c09NameKey(c.issuer) == genuineKey {
			matches++
		}
		if bytes.Equal(c.ski, pki.DSKey.KeyID()) {
			skiMatches++
		}
	}
	if matches != 1 || skiMatches != 1 {
		fw.Bug("c09 names: %d embedded certificates carry the signer identifier's issuer and serial, %d its key identifier: %s", matches, skiMatches, pl)
	}

	desc := fmt.Sprintf("%s kinds=%v near-miss=%s sidSKI=%v cs=%v digest=%v csca=%s ds=%s cc=%s issuer=%q sid=%q", pl, kinds, nearMiss, bySKI, withCS, digest, pki.CSCAKey.Kind(), pki.DSKey.Kind(), cc[0], c09NameText(cscaName), c09NameText(sidName))
	k.Nontrivial(desc)

	// files and EF.SOD
	f := ldsgen.RandMRZ(r, ldsgen.MRZOpts{Plain: true})
	f.IssuingState, f.Nationality = cc[0], cc[0]
	dg1, _ := ldsgen.NewDG1(r, ldsgen.DG1Opts{Fields: &f})
	files := map[int][]byte{1: dg1}
	if r.IntN(2) == 0 {
		files[11], _ = ldsgen.NewDG11(r, ldsgen.DG11Opts{})
	}
	hashes := map[int][]byte{}
	for n, b := range files {
		hashes[n] = digest.Sum(b)
	}
	st := issuer.BaseTime
	ss := pki.SignerSpec(digest, bySKI)
	ss.EContentType, ss.EContent = issuer.OIDLDSSecurityObject, issuer.LDSSpec{Hash: digest, DGHashes: hashes}.DER()
	ss.SIDIssuerDER = sidName.DER()
	ss.Certs = certDERs
	if r.IntN(3) != 0 {
		ss.SigningTime = &st
	}
	sod := issuer.WrapSOD(issuer.BuildSignedData(r, ss))

	detail := map[string]any{"plan": desc, "certificate_issuer_der": fmt.Sprintf("%x", cscaName.DER()), "sid_issuer_der": fmt.Sprintf("%x", sidName.DER()),
		"embedded_certificates": len(certs), "sod": hexCap(sod, 6000)}
	shape := c09NameShapes[pl.shape].label
	nc := "sole-certificate"
	if len(certs) > 1 {
		nc = "several-certificates"
	}
	sidForm := "issuer-serial"
	if bySKI {
		sidForm = "ski"
	}
	tags := fmt.Sprintf("%s:sid-%s:%s:%s", shape, c09NameOrders[pl.order], sidForm, nc)

	doc := &document.Document{}
	var err error
	if doc.Mf.Lds1.Sod, err = document.NewSOD(sod); err != nil {
		k.Violation("pa:names:genuine-sod-rejected:"+tags, fmt.Sprintf("NewSOD rejects a correctly issued security object: %v", err), detail)
		return
	}
	for n, b := range files {
		if err := doc.NewDG(n, b); err != nil {
			fw.LibFail("dg-rejected", "NewDG(%d) rejects a generated well-formed file: %v", n, err)
		}
	}
	csCerts, csTags := 0, ""
	if withCS {
		// EF.CardSecurity by the same signer, its identifier spelt in yet another way, the
		// signer's certificate alone or next to the CSCA certificate / a sibling
		s2 := pki.SignerSpec(digest, false)
		s2.EContentType, s2.EContent = issuer.OIDSecurityObject, issuer.QuickSecurityInfos()
		csOrder := 1 + r.IntN(len(c09NameOrders)-1)
		csSID := c09Respell(r, c09Reorder(r, cscaName, csOrder), pl.strvar)
		if c09NameKey(csSID) != genuineKey {
			fw.Bug("c09 names: CardSecurity signer identifier is not the certificate's issuer: %s", pl)
		}
		s2.SIDIssuerDER = csSID.DER()
		switch r.IntN(3) {
		case 1:
			s2.Certs = [][]byte{pki.CSCACert, pki.DSCert}
		case 2:
			sk := issuer.NewECKey(r, ecref.ByName("P-256"))
			spec := pki.DSSpec
			spec.Key, spec.SKI = sk, sk.KeyID()
			spec.Serial = new(big.Int).Add(pki.DSSerial, big.NewInt(int64(300001+r.IntN(1000))))
			spec.Subject = issuer.SimpleName(cc[1], "Ministry of Interior", "DS sibling")
			s2.Certs = [][]byte{pki.DSCert, issuer.BuildCert(r, spec, pki.CSCAKey)}
		}
		csCerts = len(s2.Certs)
		csTags = fmt.Sprintf("%s:sid-%s:issuer-serial:%s", shape, c09NameOrders[csOrder], map[bool]string{false: "sole-certificate", true: "several-certificates"}[csCerts > 1])
		if ss.SigningTime != nil {
			s2.SigningTime = &st
		}
		cs := issuer.BuildSignedData(r, s2)
		detail["card_security"], detail["card_security_sid_issuer_der"] = hexCap(cs, 4000), fmt.Sprintf("%x", csSID.DER())
		if doc.Mf.CardSecurity, err = document.NewCardSecurity(cs); err != nil {
			k.Violation("pa:names:genuine-cardsecurity-rejected:"+csTags, fmt.Sprintf("NewCardSecurity rejects a correctly issued object: %v", err), detail)
			return
		}
	}

	k.Count("names_documents")
	k.Count("names_shape_" + shape)
	k.Count("names_sid_order_" + c09NameOrders[pl.order])
	k.Count("names_spelling_" + c09NameStrVars[pl.strvar])
	k.Count(fmt.Sprintf("names_embedded_certificates_%d", len(certs)))
	for _, kd := range kinds {
		k.Count("names_additional_" + kd)
	}
	if nearMiss != "" {
		k.Count("names_same_serial_other_issuer_" + nearMiss)
	}
	if bySKI {
		k.Count("names_sid_by_ski")
	}
	if multiValued {
		k.Count("names_issuer_with_multivalued_rdn")
	}
	if len(cscaName) >= 8 {
		k.Count("names_issuer_with_8_or_more_attributes")
	}
	if sidDiffers {
		k.Count("names_sid_issuer_bytes_differ_from_certificate")
	}
	if sameTypeMoved {
		k.Count("names_same_type_attributes_in_other_relative_order")
		if !bySKI && len(certs) > 1 {
			k.Count("names_same_type_attributes_in_other_relative_order_issuer_serial_sid_several_certificates")
		}
	}
	if withCS {
		k.Count(fmt.Sprintf("names_cardsecurity_embedded_certificates_%d", csCerts))
	}

	// each object alone, then the document
	_, sodErr := doc.Mf.Lds1.Sod.SD.Verify(trustPool(trust))
	detail["standalone_sod_verify"] = fmt.Sprint(sodErr)
	if sodErr != nil {
		k.Violation("cms:names:genuine-sod-rejected:"+tags+c09Why(c09Profile{}, sodErr),
			fmt.Sprintf("SignedData.Verify fails on a correctly issued EF.SOD whose signer identifier spells the issuer name of the signer certificate in another (equivalent) way: %v", sodErr), detail)
		return
	}
	if withCS {
		_, csErr := doc.Mf.CardSecurity.SD.Verify(trustPool(trust))
		detail["standalone_cardsecurity_verify"] = fmt.Sprint(csErr)
		if csErr != nil {
			k.Violation("cms:names:genuine-cardsecurity-rejected:"+csTags+c09Why(c09Profile{}, csErr),
				fmt.Sprintf("SignedData.Verify fails on a correctly issued EF.CardSecurity whose signer identifier spells the issuer name of the signer certificate in another (equivalent) way: %v", csErr), detail)
			return
		}
	}
	res, err := passiveauth.PassiveAuth(doc, trustPool(trust))
	if err != nil || res == nil || !res.Success {
		k.Violation("pa:names:genuine-rejected:"+tags+c09Why(c09Profile{}, err)+":each-object-verifies-alone",
			fmt.Sprintf("passive authentication fails on a correctly issued document whose signer identifier spells the issuer name of the signer certificate in another (equivalent) way (each object verifies alone): %v", err), detail)
		return
	}
	if withCS && res.CardSec == nil {
		k.Violation("pa:cardsecurity-not-verified", "CardSecurity present but its verification is not recorded", detail)
		return
	}
	k.Count("names_accepted")
	if sameTypeMoved && !bySKI && len(certs) > 1 {
		k.Count("names_accepted_same_type_attributes_in_other_relative_order_several_certificates")
	}
	if i%40 == 0 {
		delete(detail, "sod")
		delete(detail, "card_security")
		k.Sample("names", detail)
	}
}

// c09NameText prints a name for descriptions: "C=NL,O=..,OU=a+CN=b".
func c09NameText(n issuer.Name) string {
	short := map[string]string{c09OIDStr(issuer.OIDCountry): "C", c09OIDStr(issuer.OIDOrg): "O", c09OIDStr(issuer.OIDOrgUnit): "OU", c09OIDStr(issuer.OIDCN): "CN",
		c09OIDStr(issuer.OIDSerial): "SN", c09OIDStr(c09OIDState): "ST", c09OIDStr(c09OIDLocality): "L", c09OIDStr(c09OIDDC): "DC"}
	var b strings.Builder
	for i, a := range n {
		if i > 0 {
			if a.Plus {
				b.WriteByte('+')
			} else {
				b.WriteByte(',')
			}
		}
		fmt.Fprintf(&b, "%s=%s/%02x", short[c09OIDStr(a.OID)], a.Value, a.Tag)
	}
	return b.String()
}
