package checks

import (
	"fmt"
	"math/big"
	mrand "math/rand/v2"
	"runtime/debug"
	"sort"
	"strings"

	"verifharness/chipsim"
	"verifharness/der"
	"verifharness/fw"
	"verifharness/issuer"
	"verifharness/perso"
	"verifharness/symref"
)

// C06, two further dimensions of the workload:
//
//  1. key-id arrangement 4: DG14 announces 2..4 ChipAuthenticationInfos (c06Multi) - suites in
//     every order, one key shared by several infos or a key per info, key identifiers of
//     different encoded lengths, the SET in the written order, in DER order or shuffled. The
//     chip binds every key to the suites it is announced with (chipsim.CAState.Announced):
//     whatever entry the terminal prefers, protocol, key reference, public key and session
//     key derivation must all come from that one entry.
//  2. the state of the channel when chip authentication starts (c06Chan*): a session on both
//     sides (the only state the first version knew), no session at all (chip without access
//     control; access control failed before), a session the terminal does not share.

const (
	c06ChanSession        = iota // secure messaging established on both sides (after BAC / PACE)
	c06ChanOpen                  // chip without access control: no session, files readable
	c06ChanLockedRefusing        // access condition not satisfied, no session; the chip refuses CA (6982)
	c06ChanLocked                // the same, but the chip runs the key agreement and keeps its files locked
	c06ChanChipOnly              // the chip holds a session, the terminal holds none
)

var c06ChanNames = []string{"session", "no-session-open-chip", "no-session-locked-chip-refusing", "no-session-locked-chip", "session-on-chip-only"}

// c06ChanDemandsSuccess: chip authentication in the clear is what a chip without access
// control offers (ICAO 9303-11 6.2: secure messaging is *started* by chip authentication when
// none is active), so against the key holder it has to succeed there as it does inside a
// session. When the chip's access condition is not satisfied nothing is demanded of the run
// against the key holder but the absence of a false success.
func c06ChanDemandsSuccess(ch int) bool { return ch == c06ChanSession || ch == c06ChanOpen }

// c06KeyAgreementsSeen: how many times the chip received the terminal's ephemeral key for chip
// authentication (MSE:Set KAT or GENERAL AUTHENTICATE after MSE:Set AT) and ran - or, without
// the private key, refused or faked - the key agreement. Without one no chip can have proved
// anything.
func c06KeyAgreementsSeen(card *chipsim.Card) int { return card.CA.Runs }

type c06Info struct {
	suite  symref.Suite
	key    int  // index of the key the info belongs to
	withID bool // the info carries the key's identifier
}

// c06Multi is one arrangement with several ChipAuthenticationInfos. Everything in it is
// planned from the planning PRNG; key material is drawn in the case.
type c06Multi struct {
	infos   []c06Info // in the written order
	nkeys   int
	keyIDs  []int // identifier of every key (-1: none)
	curves  []int // curve of every key (index into ecref.All()); curves[0] is the case's curve
	layout  int   // 0 keys then infos, 1 infos then keys, 2 info/key interleaved, 3 DER order, 4 shuffled
	shuffle uint64
	dh      bool // a finite-field DH key and its (stronger) info are announced as well
}

var c06LayoutNames = []string{"keys-infos", "infos-keys", "interleaved", "der-sorted", "shuffled"}

func (m *c06Multi) String() string {
	var b strings.Builder
	for i, in := range m.infos {
		if i > 0 {
			b.WriteByte(',')
		}
		id := "-"
		if in.withID {
			id = fmt.Sprint(m.keyIDs[in.key])
		}
		fmt.Fprintf(&b, "%v/k%d/id%s", in.suite, in.key, id)
	}
	return fmt.Sprintf("[%s] keys=%d ids=%v curves=%v layout=%s dh=%v", b.String(), m.nkeys, m.keyIDs, m.curves, c06LayoutNames[m.layout], m.dh)
}

// keySharing names how the infos use the keys.
func (m *c06Multi) keySharing() string {
	switch {
	case m.nkeys == 1:
		return "one-key"
	case m.nkeys == len(m.infos):
		return "key-per-info"
	}
	return "keys-shared-by-some"
}

type c06El struct {
	b    []byte
	info int // index into infos, -1 for a key
	key  int
}

// build returns DG14 and the shape of the arrangement as it stands in the file: where the
// strongest announced suite is among the ChipAuthenticationInfos, and how keys are shared.
func (m *c06Multi) build(r *mrand.Rand, keys []*issuer.Key) ([]byte, string) {
	var keyEls, infoEls []c06El
	for j, k := range keys {
		keyEls = append(keyEls, c06El{b: issuer.ChipAuthPublicKeyInfo(k.SPKI(), m.keyIDs[j]), info: -1, key: j})
	}
	for i, in := range m.infos {
		id := -1
		if in.withID {
			id = m.keyIDs[in.key]
		}
		infoEls = append(infoEls, c06El{b: issuer.ChipAuthInfo(int(in.suite), id), info: i, key: in.key})
	}
	var els []c06El
	switch m.layout {
	case 0:
		els = append(append(els, keyEls...), infoEls...)
	case 1:
		els = append(append(els, infoEls...), keyEls...)
	case 2:
		done := make([]bool, len(keyEls))
		for _, ie := range infoEls {
			els = append(els, ie)
			if !done[ie.key] {
				done[ie.key] = true
				els = append(els, keyEls[ie.key])
			}
		}
		for j, ke := range keyEls {
			if !done[j] {
				els = append(els, ke)
			}
		}
	default:
		els = append(append(els, keyEls...), infoEls...)
	}
	if m.dh {
		// a chip that also offers chip authentication over finite-field DH, with a suite
		// stronger than (or equal to) every ECDH entry; own key identifier
		dhID := 1
		for _, id := range m.keyIDs {
			if id >= dhID {
				dhID = id + 1
			}
		}
		p := randBytes(r, 128)
		p[0] |= 0x80
		p[127] |= 1
		num := func(b []byte) []byte { return der.Int(new(big.Int).SetBytes(b)) }
		spki := der.Seq(der.Seq(der.OID(1, 2, 840, 10046, 2, 1), der.Seq(num(p), der.Int64(2), num(randBytes(r, 20)))), der.BitString(num(randBytes(r, 127))))
		dhKey := der.Seq(der.OID(0, 4, 0, 127, 0, 7, 2, 2, 1, 1), spki, der.Int64(int64(dhID)))
		dhInfo := der.Seq(der.OID(0, 4, 0, 127, 0, 7, 2, 2, 3, 1, 4), der.Int64(1), der.Int64(int64(dhID)))
		// the DH entries come first, last, or around the others
		switch r.IntN(3) {
		case 0:
			els = append([]c06El{{b: dhInfo, info: -1, key: -1}, {b: dhKey, info: -1, key: -1}}, els...)
		case 1:
			els = append(els, c06El{b: dhKey, info: -1, key: -1}, c06El{b: dhInfo, info: -1, key: -1})
		default:
			els = append(append([]c06El{{b: dhKey, info: -1, key: -1}}, els...), c06El{b: dhInfo, info: -1, key: -1})
		}
	}
	switch m.layout {
	case 3:
		sort.SliceStable(els, func(i, j int) bool { return string(els[i].b) < string(els[j].b) })
	case 4:
		sr := mrand.New(mrand.NewPCG(m.shuffle, 0xC06))
		sr.Shuffle(len(els), func(i, j int) { els[i], els[j] = els[j], els[i] })
	}
	var parts [][]byte
	var order []symref.Suite
	for _, e := range els {
		parts = append(parts, e.b)
		if e.info >= 0 {
			order = append(order, m.infos[e.info].suite)
		}
	}
	best := order[0]
	same := true
	for _, s := range order {
		if s > best {
			best = s
		}
		if s != order[0] {
			same = false
		}
	}
	pos := "strongest-in-the-middle"
	switch {
	case same:
		pos = "same-suite"
	case order[len(order)-1] == best && order[0] == best:
		pos = "strongest-first-and-last"
	case order[len(order)-1] == best:
		pos = "strongest-last"
	case order[0] == best:
		pos = "strongest-first"
	}
	return der.T(0x6E, der.SetUnsorted(parts...)), pos + ":" + m.keySharing()
}

// c06SuiteSequences: every ordered selection of 2..4 distinct suites (60), plus sequences in
// which a suite is announced more than once (with different keys).
func c06SuiteSequences(prng *mrand.Rand, repeats int) [][]symref.Suite {
	var out [][]symref.Suite
	var rec func(cur []symref.Suite, used int)
	rec = func(cur []symref.Suite, used int) {
		if len(cur) >= 2 {
			out = append(out, append([]symref.Suite{}, cur...))
		}
		if len(cur) == 4 {
			return
		}
		for _, s := range symref.AllSuites {
			if used&(1<<uint(s)) == 0 {
				rec(append(cur, s), used|1<<uint(s))
			}
		}
	}
	rec(nil, 0)
	for _, s := range symref.AllSuites {
		out = append(out, []symref.Suite{s, s})
	}
	for i := 0; i < repeats; i++ {
		n := 3 + prng.IntN(2)
		seq := make([]symref.Suite, n)
		for j := range seq {
			seq[j] = symref.AllSuites[prng.IntN(4)]
		}
		seq[1+prng.IntN(n-1)] = seq[0] // at least one repetition
		out = append(out, seq)
	}
	return out
}

// c06DrawID draws a key identifier whose DER INTEGER has 1, 2 or 3 content octets.
func c06DrawID(prng *mrand.Rand, octets int, taken map[int]bool) int {
	for {
		var id int
		switch octets {
		case 1:
			id = 1 + prng.IntN(127)
		case 2:
			id = 128 + prng.IntN(32768-128)
		default:
			id = 32768 + prng.IntN(8388608-32768)
		}
		if !taken[id] {
			taken[id] = true
			return id
		}
	}
}

// c06PlanMulti plans one arrangement for a suite sequence. variant steers the key structure
// and the layout so that repeated calls for the same sequence cover different ones.
func c06PlanMulti(prng *mrand.Rand, seq []symref.Suite, curve int, variant int, singleKey bool) *c06Multi {
	m := &c06Multi{layout: variant % 5, shuffle: prng.Uint64()}
	n := len(seq)
	distinct := true
	for i := range seq {
		for j := 0; j < i; j++ {
			if seq[i] == seq[j] {
				distinct = false
			}
		}
	}
	structure := (variant / 5) % 5
	if !distinct && structure != 4 {
		structure = 3 // the same suite twice needs different keys
	}
	if singleKey && distinct && structure >= 3 {
		structure = variant % 3
	}
	m.infos = make([]c06Info, n)
	for i, s := range seq {
		m.infos[i].suite = s
	}
	switch structure {
	case 0: // one key, no identifiers anywhere
		m.nkeys = 1
	case 1: // one key, its identifier in every info
		m.nkeys = 1
		for i := range m.infos {
			m.infos[i].withID = true
		}
	case 2: // one key with an identifier that only some infos repeat
		m.nkeys = 1
		for i := range m.infos {
			m.infos[i].withID = prng.IntN(2) == 0
		}
		m.infos[prng.IntN(n)].withID = true
	case 3: // a key for every info
		m.nkeys = n
		for i := range m.infos {
			m.infos[i].key, m.infos[i].withID = i, true
		}
	case 4: // fewer keys than infos (at least two), each key used
		m.nkeys = 2
		if n > 3 && prng.IntN(2) == 0 {
			m.nkeys = 3
		}
		if n == 2 {
			m.nkeys = 2
		}
		for i := range m.infos {
			m.infos[i].key, m.infos[i].withID = i%m.nkeys, true
		}
		if n > m.nkeys {
			prng.Shuffle(n, func(i, j int) { m.infos[i].key, m.infos[j].key = m.infos[j].key, m.infos[i].key })
		}
		// the same suite with the same key would be the same element twice
		for i := range m.infos {
			for j := 0; j < i; j++ {
				if m.infos[i].suite == m.infos[j].suite && m.infos[i].key == m.infos[j].key {
					m.nkeys = n
					for x := range m.infos {
						m.infos[x].key = x
					}
				}
			}
		}
	}
	// key identifiers: all short, mixed lengths, or directed so that DER order puts the
	// strongest suite's info before a weaker one (shorter identifier sorts first)
	best := 0
	for i, in := range m.infos {
		if in.suite > m.infos[best].suite {
			best = i
		}
	}
	taken := map[int]bool{}
	mode := prng.IntN(3)
	if m.layout == 3 && variant%2 == 0 {
		mode = 2
	}
	m.keyIDs = make([]int, m.nkeys)
	for j := range m.keyIDs {
		anyID := false
		for _, in := range m.infos {
			if in.key == j && in.withID {
				anyID = true
			}
		}
		if !anyID && m.nkeys == 1 && prng.IntN(2) == 0 {
			m.keyIDs[j] = -1
			continue
		}
		oct := 1
		switch mode {
		case 1:
			oct = 1 + prng.IntN(3)
		case 2:
			oct = 2 + prng.IntN(2)
			if j == m.infos[best].key {
				oct = 1
			}
		}
		m.keyIDs[j] = c06DrawID(prng, oct, taken)
	}
	m.curves = make([]int, m.nkeys)
	other := prng.IntN(3) == 0
	for j := range m.curves {
		m.curves[j] = curve
		if j > 0 && other {
			m.curves[j] = prng.IntN(11)
		}
	}
	// finite-field DH entries next to the others: only where every key carries an identifier
	if m.keyIDs[0] >= 0 && prng.IntN(4) == 0 {
		allID := true
		for _, in := range m.infos {
			if !in.withID {
				allID = false
			}
		}
		m.dh = allID
	}
	return m
}

// strategies that make sense when no session exists before chip authentication
var c06NoSessionStrategies = []string{"empty-mac", "truncated-mac", "zero-mac", "unprotected-9000", "unprotected-6a82", "random-mac", "keys-from-random-secret", "keys-from-other-point", "keys-from-terminal-key-x", "protected-6a82-fake-keys", "protected-6283-fake-keys", "refuse", "refuse-everything-6982", "refuse-ca-commands-6982"}

// c06ShapePlans appends the cases of the two new dimensions.
func c06ShapePlans(c *fw.Ctx) (pos, neg []c06Cfg) {
	prng := c.PlanRNG("c06-shapes")
	seqs := c06SuiteSequences(prng, c.Pick(8, 40))
	// (1) several ChipAuthenticationInfos, inside a session
	reps := c.Pick(2, 25)
	v := 0
	for si, seq := range seqs {
		for rp := 0; rp < reps; rp++ {
			cv := (si + 3*rp + v) % 11
			pos = append(pos, c06Cfg{curve: cv, arrange: 4, form: (si + rp) % 3, multi: c06PlanMulti(prng, seq, cv, v, false)})
			v++
		}
	}
	// ... with shared secrets that start with a zero octet (one key: the ground one)
	for g := 0; g < c.Pick(6, 66); g++ {
		cv := g % 11
		seq := seqs[prng.IntN(60)]
		pos = append(pos, c06Cfg{curve: cv, arrange: 4, form: g % 3, grind: true, multi: c06PlanMulti(prng, seq, cv, g, true)})
	}
	// (2) state of the channel: the key holder
	for ch := c06ChanOpen; ch <= c06ChanChipOnly; ch++ {
		for cv := 0; cv < 11; cv++ {
			for _, s := range symref.AllSuites {
				for arr := 0; arr < 5; arr++ {
					if arr == 3 && s != symref.TDES {
						continue
					}
					if c.Quick() {
						// open chip: every curve x suite with a rotating arrangement; other states: thinner
						if ch == c06ChanOpen && (cv+int(s))%5 != arr {
							continue
						}
						if ch != c06ChanOpen && (cv+2*int(s)+ch)%11 != arr {
							continue
						}
					}
					cfg := c06Cfg{curve: cv, suite: s, arrange: arr, form: (cv + int(s) + arr + ch) % 3, channel: ch}
					if arr == 4 {
						cfg.multi = c06PlanMulti(prng, seqs[prng.IntN(len(seqs))], cv, prng.IntN(25), false)
					}
					pos = append(pos, cfg)
				}
			}
		}
	}
	// the open chip with a leading-zero shared secret
	for g := 0; g < c.Pick(3, 33); g++ {
		pos = append(pos, c06Cfg{curve: g % 11, suite: symref.AllSuites[(g/2)%4], arrange: g % 3, form: g % 3, grind: true, channel: c06ChanOpen})
	}

	// impostors: several infos inside a session
	for i := 0; i < c.Pick(28, 280); i++ {
		cv := i % 11
		neg = append(neg, c06Cfg{curve: cv, arrange: 4, form: prng.IntN(3), strategy: c06Strategies[i%len(c06Strategies)],
			multi: c06PlanMulti(prng, seqs[prng.IntN(len(seqs))], cv, prng.IntN(25), false)})
	}
	// impostors x state of the channel
	for ch := c06ChanOpen; ch <= c06ChanChipOnly; ch++ {
		strategies := c06NoSessionStrategies
		if ch == c06ChanChipOnly {
			strategies = append(append([]string{}, c06Strategies...), "refuse-everything-6982")
		}
		rounds := c.Pick(1, 11)
		if ch == c06ChanOpen {
			rounds = c.Pick(3, 22)
		}
		for rd := 0; rd < rounds; rd++ {
			for si, st := range strategies {
				cv := (si + 5*rd + ch) % 11
				s := symref.AllSuites[(si+rd)%4]
				arr := prng.IntN(5)
				if arr == 3 && s != symref.TDES {
					arr = prng.IntN(3)
				}
				cfg := c06Cfg{curve: cv, suite: s, arrange: arr, form: prng.IntN(3), strategy: st, channel: ch}
				if arr == 4 {
					cfg.multi = c06PlanMulti(prng, seqs[prng.IntN(len(seqs))], cv, prng.IntN(25), false)
				}
				neg = append(neg, cfg)
			}
		}
	}
	return pos, neg
}

// ---------------------------------------------------------------------------------------
// the same two dimensions through reader.ReadDocument

type c06ReaderCfg struct {
	// 0: regular read (access control succeeds) of a chip announcing several infos;
	// 1: chip without access control (no BAC / PACE application data: GET CHALLENGE 6D00), files readable;
	// 2: files readable, access control present but the password is wrong (a copy of the files
	//    on a chip that does not know the holder's MRZ): BAC / PACE fail, the read goes on in the clear
	mode     int
	access   perso.Access
	ca       perso.CAOpts
	strategy string // "": the chip holds the key
}

func (rc c06ReaderCfg) String() string {
	return fmt.Sprintf("mode=%s access=%v ca=%+v strategy=%s", c06ReaderModes[rc.mode], rc.access, rc.ca, rc.strategy)
}

var c06ReaderModes = []string{"session", "no-access-control", "access-control-failed"}

func c06ReaderPlans(c *fw.Ctx) []c06ReaderCfg {
	prng := c.PlanRNG("c06-reader")
	var out []c06ReaderCfg
	drawCA := func(i int, multi bool) perso.CAOpts {
		o := perso.CAOpts{On: true, Curve: prng.IntN(11), Suite: symref.AllSuites[prng.IntN(4)], Form: prng.IntN(3), Arrange: i % 4}
		if o.Arrange == 3 {
			o.Suite = symref.TDES
		}
		if !multi || o.Arrange == 3 {
			return o
		}
		// further infos for the same key; with one key that has an identifier an info may
		// leave the identifier out (and then stands first in the sorted SET)
		for _, s := range symref.AllSuites {
			if s == o.Suite || prng.IntN(3) == 0 {
				continue
			}
			withID := o.Arrange == 2 || (o.Arrange == 1 && prng.IntN(2) == 0)
			o.MoreInfos = append(o.MoreInfos, perso.CAMoreInfo{Suite: s, WithID: withID})
		}
		if len(o.MoreInfos) == 0 {
			o.MoreInfos = []perso.CAMoreInfo{{Suite: symref.AllSuites[(int(o.Suite)+1+prng.IntN(3))%4], WithID: o.Arrange == 2}}
		}
		return o
	}
	for i := 0; i < c.Pick(16, 160); i++ {
		out = append(out, c06ReaderCfg{mode: 0, access: []perso.Access{perso.BACOnly, perso.PACEGMWithBAC, perso.PACEGMOnly}[i%3], ca: drawCA(i, true)})
	}
	strategies := []string{""}
	for _, st := range c06NoSessionStrategies {
		if st != "refuse-everything-6982" { // would end the read at the first SELECT
			strategies = append(strategies, st)
		}
	}
	for mode := 1; mode <= 2; mode++ {
		for rd := 0; rd < c.Pick(1, 8); rd++ {
			for si, st := range strategies {
				acc := perso.BACOnly
				if mode == 2 && (si+rd)%3 == 0 {
					acc = perso.PACEGMWithBAC
				}
				out = append(out, c06ReaderCfg{mode: mode, access: acc, ca: drawCA(si+rd, (si+rd)%2 == 0), strategy: st})
			}
			// the key holder more than once per round
			for g := 0; g < 3; g++ {
				out = append(out, c06ReaderCfg{mode: mode, access: perso.BACOnly, ca: drawCA(g+rd, g%2 == 0)})
			}
		}
	}
	return out
}

func c06Reader(k *fw.K, rc c06ReaderCfg, idx int) {
	r := k.RNG
	o := perso.Opts{Access: rc.access, ParamID: 8 + r.IntN(11), Suite: symref.AllSuites[1+r.IntN(3)], CA: rc.ca, Digest: issuer.SHA256}
	o.PKI.CertHash = issuer.SHA256
	p := perso.Build(r, o)
	card := p.NewCard(uint64(idx) + 17)
	lo := liveOpts{maxLe: 256}
	switch rc.mode {
	case 1:
		card.AuthRequired, card.BAC, card.PACE = false, nil, nil
		delete(card.MF, chipsim.FidCardAccess)
	case 2:
		card.AuthRequired = false
		lo.wrongPw = true
	}
	if rc.strategy != "" {
		c06InstallImpostor(card, rc.strategy, r)
	}
	fw.SeedCryptoRand(int64(idx)+2000003, "C06-reader")
	k.Nontrivial(rc.String() + fmt.Sprintf("|%d", idx))
	k.Count("reader_" + c06ReaderModes[rc.mode])
	// ReadDocument recovers panics: one raised by the simulated chip must not pass as a library error
	chipPanic := ""
	res := liveRead(p, card, lo, func(next func([]byte) []byte) func([]byte) []byte {
		return func(raw []byte) []byte {
			defer func() {
				if e := recover(); e != nil {
					chipPanic = fmt.Sprintf("%v\n%s", e, debug.Stack())
					panic(e)
				}
			}()
			return next(raw)
		}
	})
	if chipPanic != "" {
		fw.Bug("C06 reader case: the simulated chip panicked: %s", chipPanic)
	}
	holder := "key-holder"
	if rc.strategy != "" {
		holder = "impostor"
	}
	detail := func() map[string]any {
		m := map[string]any{"config": rc.String(), "err": fmt.Sprint(res.err), "dg14": hexCap(p.DG14, 900), "chip_ca_done": card.CADone, "chip_bac_done": card.BACDone, "chip_pace_done": card.PACEDone,
			"chip_key_agreements": c06KeyAgreementsSeen(card), "chip_exchanges": len(card.Events)}
		if res.docEx != nil {
			s := res.docEx.Session
			m["session"] = fmt.Sprintf("bac=%v/%v pace=%v/%v ca=%+v/%v status=%v", s.BacResult, s.BacErr, s.PaceResult, s.PaceErr, s.ChipAuthResult, s.ChipAuthErr, s.ChipAuthProtocolStatus())
		}
		return m
	}
	if res.docEx == nil {
		if rc.mode == 0 {
			k.Violation("ca:reader:no-document:"+c06ReaderModes[rc.mode], fmt.Sprintf("ReadDocument returned no document for a conforming chip: %v", res.err), detail())
		} else {
			k.Count(fmt.Sprintf("reader_no_document_%s_%v_%s", c06ReaderModes[rc.mode], rc.access, rc.strategy))
			k.Sample("reader_no_document", detail())
		}
		return
	}
	s := res.docEx.Session
	caOK := s.ChipAuthResult != nil && s.ChipAuthResult.Success
	reached := res.docEx.Document.Mf.Lds1.Dg14 != nil
	if reached {
		k.Count("reader_dg14_read_" + c06ReaderModes[rc.mode] + "_" + holder)
	}
	if rc.mode != 0 && (card.BACDone || card.PACEDone) {
		fw.Bug("C06 reader case: the chip completed access control although it has none / the password was wrong")
	}
	// "A chip that lacks that private key is never reported as successful" - and no chip is
	// without the key agreement having reached it
	if caOK && (rc.strategy != "" || !card.CADone || c06KeyAgreementsSeen(card) == 0) {
		key := "ca:reader:success-without-private-key-use:" + c06ReaderModes[rc.mode]
		if rc.strategy != "" {
			key = "ca:reader:impostor-accepted:" + c06ReaderModes[rc.mode] + ":" + rc.strategy
		}
		k.Violation(key, fmt.Sprintf("the read reports chip authentication as successful (status %v); chip used the private key: %v, key agreement commands that reached the chip: %d", s.ChipAuthProtocolStatus(), card.CADone, c06KeyAgreementsSeen(card)), detail())
		return
	}
	if rc.strategy != "" {
		if !reached {
			k.Count(fmt.Sprintf("reader_dg14_not_reached_%s_%v_%s", c06ReaderModes[rc.mode], rc.access, rc.strategy))
			k.Sample("reader_dg14_not_reached", detail())
		}
		k.Count("reader_impostor_rejected_" + c06ReaderModes[rc.mode])
		if c06KeyAgreementsSeen(card) > 0 {
			k.Count("reader_impostor_rejected_after_key_agreement")
		}
		return
	}
	// the key holder: with the documented pipeline (no AA, no PACE-CAM) chip authentication
	// runs once DG14 has been read, and has to succeed - inside the session access control
	// established, and in the clear on the chip without access control
	if !reached {
		if rc.mode == 0 {
			k.Violation("ca:reader:dg14-not-read:"+c06ReaderModes[rc.mode], fmt.Sprintf("DG14 of a conforming chip was not read: %v", res.err), detail())
		} else {
			k.Count("reader_dg14_not_reached_" + c06ReaderModes[rc.mode])
		}
		return
	}
	if !caOK || !card.CADone {
		shape := "one-info"
		if len(rc.ca.MoreInfos) > 0 {
			shape = "multi-info"
		}
		k.Violation(fmt.Sprintf("ca:reader:genuine-failed:%s:%s", c06ReaderModes[rc.mode], shape), fmt.Sprintf("chip authentication against the chip holding the DG14 key was not reported successful (chip completed it: %v): %v", card.CADone, s.ChipAuthErr), detail())
		return
	}
	k.Count("reader_genuine_ok_" + c06ReaderModes[rc.mode])
	if len(rc.ca.MoreInfos) > 0 {
		k.Count("reader_genuine_ok_multi_info")
	}
}
