package checks

import (
	"fmt"
	mrand "math/rand/v2"
	"strings"
	"time"
	"verifharness/refverify"

	"github.com/gmrtd/gmrtd/document"
	"github.com/gmrtd/gmrtd/passiveauth"

	"verifharness/ecref"
	"verifharness/fw"
	"verifharness/issuer"
	"verifharness/ldsgen"
	"verifharness/refber"
)

// C09 - genuine security objects verify for every supported algorithm profile.

func init() {
	register(&fw.Spec{
		ID:    "C09",
		Level: "exploration",
		Rule: "case = one correctly issued document (DG1 + random data groups + EF.SOD, optionally CardSecurity) over the issuing-profile matrix: CSCA key x DS key (RSA-2048/3072/4096 with PKCS#1 v1.5 or PSS; ECDSA on the 11 curves, named or explicit parameters) x digest SHA-1..512 x signer identifier (issuer+serial / subject key identifier) x LDS security object version x signing time (absent, strictly inside, equal to notBefore, equal to notAfter of DS / CSCA) x encoding (DER; BER with indefinite lengths on a random subset of CMS containers) x harmless variations (SID issuer with other attribute order / string type / letter case, extra embedded certificates, same-SKI anchor whose signature check fails placed first, several countries in the store), judged by passiveauth.PassiveAuth; " +
			"plus (berlevel cases) the same documents with the indefinite form on an explicitly chosen set of the 17 constructed levels of the EF.SOD SignedData (every level alone, encoder-like combinations with and without the outermost SEQUENCE, random subsets of every density, two thirds with a definite outermost SEQUENCE) and a DER CardSecurity next to it; " +
			"plus (rotation cases) EF.CardSecurity signed by another document signer (optionally below a second CSCA) at its own signing time, that signer's window lying after / before / apart from the SOD's signing time and vice versa, each object inside its own signer's window, signing-time attribute present or absent on either object, judged by PassiveAuth and by SignedData.Verify on each object alone; " +
			"plus (names cases) documents whose signer certificate's issuer name repeats attribute types (two / three OU, two O, two CN, three DC, OU values that are prefixes of each other, equal and equal-after-case-folding values), holds a multi-valued RDN or 8-10 attributes, the issuerAndSerialNumber signer identifier listing the same RDNs reversed / rotated / shuffled / with one same-type pair exchanged and/or in another string type, letter case, whitespace, next to 0-3 further embedded certificates (document signer of another authority of the country, the CSCA certificate, a sibling with another serial, the signer's serial under another issuer whose name is unrelated or a near miss), EF.CardSecurity of the same signer in a third of them, judged by SignedData.Verify on each object and PassiveAuth; " +
			"oracle: success; non-trivial = every document; distinct = the profile tuple",
		MinEvaluations: 250,
		Assumptions: []string{
			"RSA keys >= 2048 bits; PSS with MGF1 over the message hash and explicit parameters; the outer 0x77 length is definite; embedded certificates stay DER (their signatures cover the encoding); extra certificates belong to the same country",
			"certificate validity is judged at the signing-time attribute of the generated object, never at the wall clock",
			"berlevel cases demand acceptance only when the signed attributes stay DER (RFC 5652 5.3), the eContent OCTET STRING is primitive and at least one indefinite level is one the first encoding/asn1 pass reads (the library documents the normalisation as a retry after a failed first parse); objects outside that class (indefinite form only inside the raw-captured issuer Name of the SID, BER signed attributes, constructed eContent, BER CardSecurity) are generated and counted in observe_only counters, never judged",
			"names cases: every generated name holds exactly one countryName attribute; every embedded certificate is of the same country; a harness-side reference comparison (sorted multiset of type and case-folded, whitespace-collapsed value; no library code) confirms before the library is called that exactly one embedded certificate has the identified issuer and serial and exactly one the signer's key identifier; members of a multi-valued RDN are emitted in DER order; the signer key differs from the CSCA key",
			"rotation cases: an object without signing-time attribute is not judged for validity (cms.resolveSigningTime documents this), so it is genuine whatever its signer's window",
		},
		Run: runC09,
	})
}

type c09Profile struct {
	cscaKind, dsKind int // 0..2 RSA 2048/3072/4096, 3.. EC curve index+3
	cscaPSS, dsPSS   bool
	dsExplicit       bool
	cscaExplicit     bool
	digest           issuer.HashAlg
	certHash         issuer.HashAlg
	bySKI            bool
	ldsV1            bool
	timeMode         int // 0 absent, 1 inside, 2 = DS notBefore, 3 = DS notAfter, 4 = CSCA notAfter (DS ends with it)
	ber              bool
	sidVariant       int // 0 exact, 1 reordered, 2 other string type, 3 other case, 4 extra whitespace
	extraCerts       int
	crossAnchor      bool
	multiCountry     bool
	plainRSAOID      bool
	digestNull       bool
	cardSecurity     bool
	country          int
	state            [2]string // when set: issuing state (alpha-3) and certificate country (alpha-2) instead of c09Countries[country]

	// structural BER dimension (c09_ber.go): which constructed levels of the EF.SOD
	// SignedData use the indefinite form, instead of the random subset below a forced
	// outermost level that `ber` selects
	berLevels bool
	berMask   issuer.CMSLevels
	berSeg    int              // eContent OCTET STRING: 0 primitive, 1 constructed/definite, 2 constructed/indefinite
	csMask    issuer.CMSLevels // levels tried on the CardSecurity object (observation only)
}

func (p c09Profile) String() string {
	kn := func(k int) string {
		if k < 3 {
			return []string{"RSA2048", "RSA3072", "RSA4096"}[k]
		}
		return ecref.All()[k-3].Name
	}
	s := fmt.Sprintf("csca=%s pss=%v expl=%v ds=%s pss=%v expl=%v digest=%v certhash=%v sidSKI=%v ldsV1=%v time=%d ber=%v sidvar=%d extra=%d cross=%v multi=%v plainRSA=%v dnull=%v cardsec=%v cc=%d",
		kn(p.cscaKind), p.cscaPSS, p.cscaExplicit, kn(p.dsKind), p.dsPSS, p.dsExplicit, p.digest, p.certHash, p.bySKI, p.ldsV1, p.timeMode, p.ber, p.sidVariant, p.extraCerts, p.crossAnchor, p.multiCountry, p.plainRSAOID, p.digestNull, p.cardSecurity, p.country)
	if p.berLevels {
		s += fmt.Sprintf(" levels=%s seg=%d cslevels=%s", p.berMask, p.berSeg, p.csMask)
	}
	return s
}

func c09Key(r *mrand.Rand, kind int, explicit bool) *issuer.Key {
	if kind < 3 {
		bits := []int{2048, 3072, 4096}[kind]
		return issuer.RSAKeyOf(bits, r.IntN(issuer.RSAKeyCount(bits)))
	}
	k := issuer.NewECKey(r, ecref.All()[kind-3])
	k.Explicit = explicit
	k.WithSeed = explicit && r.IntN(3) == 0
	return k
}

func c09RandProfile(r *mrand.Rand, i int) c09Profile {
	var p c09Profile
	// stratify the two key kinds and the digest over the index so that every value appears
	p.cscaKind = i % 14
	p.dsKind = (i / 14) % 14
	p.digest = issuer.AllHashes[(i/3)%5]
	p.certHash = issuer.AllHashes[1+r.IntN(4)]
	p.cscaPSS, p.dsPSS = r.IntN(2) == 0, r.IntN(2) == 0
	p.dsExplicit, p.cscaExplicit = r.IntN(2) == 0, r.IntN(2) == 0
	p.bySKI = r.IntN(2) == 0
	p.ldsV1 = r.IntN(2) == 0
	p.timeMode = r.IntN(5)
	p.ber = r.IntN(3) == 0
	p.sidVariant = r.IntN(5)
	if r.IntN(3) == 0 {
		p.extraCerts = 1 + r.IntN(2)
	}
	p.crossAnchor = r.IntN(4) == 0
	p.multiCountry = r.IntN(3) == 0
	p.plainRSAOID = r.IntN(3) == 0
	p.digestNull = r.IntN(2) == 0
	p.cardSecurity = r.IntN(4) == 0
	p.country = r.IntN(len(c09Countries))
	return p
}

var c09Countries = [][2]string{{"NLD", "NL"}, {"FRA", "FR"}, {"USA", "US"}, {"GBR", "GB"}, {"NZL", "NZ"}, {"SGP", "SG"}, {"CHE", "CH"}, {"AUS", "AU"}}

type c09Doc struct {
	doc   *document.Document
	trust [][]byte
	sod   []byte
	note  string
	// berApplied: the levels of berMask that exist in this object; berRequired: acceptance
	// is demanded (see c09BerRequired); berWhy: the class when it is not
	berApplied  issuer.CMSLevels
	berRequired bool
	berWhy      string
}

// c09Build issues the document; it returns the library Document and the trust store.
func c09Build(k *fw.K, r *mrand.Rand, p c09Profile) *c09Doc {
	cc := c09Countries[p.country]
	if p.state[0] != "" {
		cc = p.state
	}
	cscaName := issuer.Name{{OID: issuer.OIDCountry, Value: cc[1]}, {OID: issuer.OIDOrg, Value: "Ministry of Interior", Tag: 0x0C}, {OID: issuer.OIDOrgUnit, Value: "Travel Documents", Tag: 0x13}, {OID: issuer.OIDCN, Value: "CSCA " + cc[0], Tag: 0x0C}}
	o := issuer.PKIOpts{Country: cc[1], CSCAKey: c09Key(r, p.cscaKind, p.cscaExplicit), DSKey: c09Key(r, p.dsKind, p.dsExplicit), CSCAPSS: p.cscaPSS, DSPSS: p.dsPSS, CertHash: p.certHash, CSCAName: cscaName}
	o.DSName = issuer.SimpleName(cc[1], "Ministry of Interior", "DS 7")
	st := issuer.BaseTime
	switch p.timeMode {
	case 2:
		o.DSNotBefore, o.DSNotAfter = st, st.AddDate(5, 0, 0)
	case 3:
		o.DSNotBefore, o.DSNotAfter = st.AddDate(-1, 0, 0), st
	case 4:
		o.CSCANotBefore, o.CSCANotAfter = st.AddDate(-9, 0, 0), st
		o.DSNotBefore, o.DSNotAfter = st.AddDate(-2, 0, 0), st
	}
	pki := issuer.NewPKI(r, o)
	// files
	f := ldsgen.RandMRZ(r, ldsgen.MRZOpts{Plain: true})
	f.IssuingState, f.Nationality = cc[0], cc[0]
	dg1, _ := ldsgen.NewDG1(r, ldsgen.DG1Opts{Fields: &f})
	files := map[int][]byte{1: dg1}
	if r.IntN(2) == 0 {
		files[2], _ = ldsgen.NewDG2(r, ldsgen.DG2Opts{Templates: 1, ImagesPerTemplate: 1, ImageBytes: 60})
	}
	if r.IntN(2) == 0 {
		files[11], _ = ldsgen.NewDG11(r, ldsgen.DG11Opts{})
	}
	if r.IntN(3) == 0 {
		files[13], _ = ldsgen.RandDG13(r, 60)
	}
	hashes := map[int][]byte{}
	for n, b := range files {
		hashes[n] = p.digest.Sum(b)
	}
	// hash entries for data groups that are not read are normal
	if r.IntN(3) == 0 {
		hashes[3] = p.digest.Sum([]byte("fingerprints stay on the chip"))
	}
	lds := issuer.LDSSpec{Hash: p.digest, DGHashes: hashes, HashNull: p.digestNull}
	if p.ldsV1 {
		lds.Version, lds.LDSVer, lds.UniVer = 1, "0108", "040000"
	}
	ss := pki.SignerSpec(p.digest, p.bySKI)
	ss.EContentType, ss.EContent = issuer.OIDLDSSecurityObject, lds.DER()
	ss.PlainRSAOID, ss.DigestNull = p.plainRSAOID, p.digestNull
	if p.timeMode != 0 {
		ss.SigningTime = &st
	}
	// SID issuer variants (only meaningful for issuerAndSerialNumber)
	switch p.sidVariant {
	case 1:
		n := append(issuer.Name{}, cscaName...)
		n[1], n[3] = n[3], n[1]
		ss.SIDIssuerDER = n.DER()
	case 2:
		n := append(issuer.Name{}, cscaName...)
		for i := range n {
			if n[i].Tag == 0x0C {
				n[i].Tag = 0x13
			}
		}
		ss.SIDIssuerDER = n.DER()
	case 3:
		n := append(issuer.Name{}, cscaName...)
		n[1].Value, n[3].Value = strings.ToUpper(n[1].Value), strings.ToLower(n[3].Value)
		ss.SIDIssuerDER = n.DER()
	case 4:
		n := append(issuer.Name{}, cscaName...)
		n[1].Value = "  Ministry   of  Interior "
		ss.SIDIssuerDER = n.DER()
	}
	// extra embedded certificates of the same issuer
	for e := 0; e < p.extraCerts; e++ {
		ok := issuer.NewECKey(r, ecref.ByName("P-256"))
		spec := pki.DSSpec
		spec.Serial = new(bigInt).Add(spec.Serial, bigOne(int64(e+1)))
		spec.Key, spec.SKI = ok, ok.KeyID()
		spec.Subject = issuer.SimpleName(cc[1], "Ministry of Interior", fmt.Sprintf("DS extra %d", e))
		ss.Certs = append(ss.Certs, issuer.BuildCert(r, spec, pki.CSCAKey))
	}
	if p.extraCerts > 0 && r.IntN(2) == 0 {
		ss.Certs[0], ss.Certs[len(ss.Certs)-1] = ss.Certs[len(ss.Certs)-1], ss.Certs[0]
	}
	ci := issuer.BuildSignedData(r, ss)
	note := ""
	if p.ber {
		var n int
		ci, n = issuer.ToIndefinite(r, ci, 45, true, func(nd *refber.Node, depth int, path []uint32) bool {
			// certificates [0] children (the certificates themselves) stay DER; so does the
			// eContent octet string (primitive anyway)
			return len(path) >= 2 && path[len(path)-2] == 0xA0 && nd.Tag == 0x30 && depth >= 4 && isCertPath(path)
		})
		note = fmt.Sprintf("indefinite-containers=%d", n)
	}
	berApplied, berRequired, berWhy := issuer.CMSLevels(0), true, ""
	if p.berLevels {
		ci, berApplied = issuer.IndefiniteLevels(ci, p.berMask)
		if p.berSeg != 0 {
			var ok bool
			if ci, ok = issuer.SegmentEContent(ci, []int{r.IntN(40), r.IntN(3), 1 + r.IntN(200)}, p.berSeg == 2); !ok {
				fw.Bug("SegmentEContent: no eContent in a generated object")
			}
		}
		berRequired, berWhy = c09BerRequired(p, berApplied)
		note = fmt.Sprintf("indefinite-levels=%s seg=%d", berApplied, p.berSeg)
	}
	sod := issuer.WrapSOD(ci)
	d := &c09Doc{doc: &document.Document{}, sod: sod, note: note, berApplied: berApplied, berRequired: berRequired, berWhy: berWhy}
	var err error
	if d.doc.Mf.Lds1.Sod, err = document.NewSOD(sod); err != nil {
		if p.berLevels {
			c09BerSODRejected(k, p, d, err)
			return nil
		}
		k.Violation("pa:genuine-sod-rejected:"+c09Class(p), fmt.Sprintf("NewSOD rejects a correctly issued security object: %v", err), map[string]any{"profile": p.String(), "sod": hexCap(sod, 3000), "note": note})
		return nil
	}
	for n, b := range files {
		if err := d.doc.NewDG(n, b); err != nil {
			fw.LibFail("dg-rejected", "NewDG(%d) rejects a generated well-formed file: %v", n, err)
		}
	}
	if p.cardSecurity {
		s2 := pki.SignerSpec(p.digest, false)
		s2.EContentType, s2.EContent = issuer.OIDSecurityObject, []byte{0x31, 0x00}
		// a CardSecurity needs parseable SecurityInfos: one PACEInfo
		s2.EContent = issuer.QuickSecurityInfos()
		if p.timeMode != 0 {
			s2.SigningTime = &st
		}
		cs := issuer.BuildSignedData(r, s2)
		if p.csMask != 0 {
			c09ObserveBERCardSecurity(k, cs, p.csMask)
		}
		if d.doc.Mf.CardSecurity, err = document.NewCardSecurity(cs); err != nil {
			k.Violation("pa:genuine-cardsecurity-rejected", fmt.Sprintf("NewCardSecurity rejects a correctly issued object: %v", err), map[string]any{"profile": p.String(), "card_security": hexCap(cs, 3000)})
			return nil
		}
	}
	// trust store
	d.trust = [][]byte{pki.CSCACert}
	if p.crossAnchor {
		// another certificate with the same subject key identifier and name but another key:
		// its signature check of the DS certificate fails, the genuine anchor is tried next
		imp := pki.CSCASpec
		ik := issuer.NewECKey(r, ecref.ByName("P-256"))
		imp.Key = ik
		imp.Serial = new(bigInt).Add(imp.Serial, bigOne(1))
		imp.Scheme, imp.Hash = issuer.ECDSA, issuer.SHA256
		d.trust = [][]byte{issuer.BuildCert(r, imp, ik), pki.CSCACert}
	}
	if p.multiCountry {
		for j := 0; j < 2; j++ {
			oc := c09Countries[(p.country+1+j)%len(c09Countries)]
			other := issuer.NewPKI(r, issuer.PKIOpts{Country: oc[1], CertHash: issuer.SHA256, CSCAName: issuer.SimpleName(oc[1], "Gov", "CSCA "+oc[0])})
			if j == 0 {
				d.trust = append([][]byte{other.CSCACert}, d.trust...)
			} else {
				d.trust = append(d.trust, other.CSCACert)
			}
		}
	}
	return d
}

func isCertPath(path []uint32) bool {
	// ContentInfo(30) > [0](A0) > SignedData(30) > certificates [0](A0) > Certificate(30)
	return len(path) == 5 && path[0] == 0x30 && path[1] == 0xA0 && path[2] == 0x30 && path[3] == 0xA0 && path[4] == 0x30
}

func c09Class(p c09Profile) string {
	kn := func(k int, pss bool) string {
		if k < 3 {
			if pss {
				return "rsa-pss"
			}
			return "rsa-pkcs1"
		}
		return "ecdsa"
	}
	enc := "der"
	if p.ber {
		enc = "ber"
	}
	return fmt.Sprintf("csca-%s:ds-%s:%s", kn(p.cscaKind, p.cscaPSS), kn(p.dsKind, p.dsPSS), enc)
}

func c09Case(k *fw.K, i int) {
	r := k.RNG
	p := c09RandProfile(r, i)
	k.Nontrivial(p.String())
	d := c09Build(k, r, p)
	if d == nil {
		return
	}
	k.Count("documents")
	res, err := passiveauth.PassiveAuth(d.doc, trustPool(d.trust))
	if err != nil || res == nil || !res.Success {
		k.Violation("pa:genuine-rejected:"+c09Class(p)+c09Why(p, err), fmt.Sprintf("passive authentication fails on a correctly issued document: %v", err), map[string]any{"profile": p.String(), "note": d.note, "sod": hexCap(d.sod, 4000)})
		return
	}
	if p.cardSecurity && res.CardSec == nil {
		k.Violation("pa:cardsecurity-not-verified", "CardSecurity present but its verification is not recorded", map[string]any{"profile": p.String()})
		return
	}
	k.Count("accepted")
	k.Count("accepted_" + c09Class(p))
	if p.ber {
		k.Count("accepted_ber_indefinite")
	}
	if p.crossAnchor {
		k.Count("accepted_with_same_ski_anchor_first")
	}
	if i%40 == 0 {
		k.Sample("document", map[string]any{"profile": p.String(), "sod_bytes": len(d.sod), "note": d.note})
	}
}

// c09StateCase: one genuine document (P-256 / SHA-256 / DER, the cheapest profile) for every
// ISO 3166-1 country as issuing state, its CSCA and document signer carrying the matching
// alpha-2 code - the country dimension of "a correctly issued document is reported as
// passively authenticated" (the table is refverify's own, written from the standard).
func c09StateCase(k *fw.K, i int) {
	codes := refverify.ISOAlpha3Codes()
	a3 := codes[i%len(codes)]
	a2, ok := refverify.StateAlpha2(a3)
	if !ok {
		fw.Bug("reference table has no alpha-2 for %s", a3)
	}
	r := k.RNG
	p := c09Profile{cscaKind: 4, dsKind: 4, digest: issuer.SHA256, certHash: issuer.SHA256, bySKI: i%2 == 0, state: [2]string{a3, a2}}
	for j, cv := range ecref.All() {
		if cv.Name == "P-256" || cv.Name == "secp256r1" || cv.Name == "prime256v1" {
			p.cscaKind, p.dsKind = 3+j, 3+j
		}
	}
	k.Nontrivial("state|" + a3)
	d := c09Build(k, r, p)
	if d == nil {
		return
	}
	k.Count("state_documents")
	res, err := passiveauth.PassiveAuth(d.doc, trustPool(d.trust))
	if err != nil || res == nil || !res.Success {
		k.Violation("pa:genuine-rejected:issuing-state:"+a3, fmt.Sprintf("passive authentication fails on a correctly issued document of issuing state %s (certificates C=%s): %v", a3, a2, err), map[string]any{"state": a3, "country": a2, "sod": hexCap(d.sod, 3000)})
		return
	}
	k.Count("state_accepted")
}

// c09Why attaches a short cause class so that distinct defects get distinct keys.
func c09Why(p c09Profile, err error) string {
	if err == nil {
		return ":no-error"
	}
	s := err.Error()
	for _, kw := range []string{"selectCertificate", "VerifySignature", "validity", "not yet valid", "expired", "unable to locate parent", "no valid CA parent", "country", "DgHash", "DG hash", "prepareVerificationData", "AKI", "keyUsage"} {
		if strings.Contains(s, kw) {
			return ":" + strings.ReplaceAll(kw, " ", "-")
		}
	}
	return ":other"
}

func runC09(c *fw.Ctx) {
	if err := ecref.SelfTest(); err != nil {
		fw.Bug("ecref self-test: %v", err)
	}
	_ = time.Now
	n := c.Pick(392, 40768)
	c.Cases(n, func(i int) string { return fmt.Sprintf("doc|i=%d", i) }, func(i int, k *fw.K) { c09Case(k, i) })

	// which constructed levels of the EF.SOD use the indefinite form (c09_ber.go)
	plan := c09BerPlan(c)
	c.Cases(len(plan), func(i int) string {
		return fmt.Sprintf("berlevel|i=%d %s levels=%s seg=%d", i, plan[i].label, plan[i].mask, plan[i].seg)
	},
		func(i int, k *fw.K) { c09BerCase(c, k, i, plan[i]) })
	// EF.CardSecurity with its own signer / signing time / validity window (c09_rotation.go)
	nr := c.Pick(128, 6400)
	c.Cases(nr, func(i int) string { return fmt.Sprintf("rotation|i=%d %s", i, c09RotPlanOf(i)) }, func(i int, k *fw.K) { c09RotationCase(k, i) })
	// issuer names with repeated attribute types / multi-valued RDNs / many attributes, spelt
	// in another order in the signer identifier, next to further embedded certificates (c09_names.go)
	nn := c.Pick(280, 8400)
	c.Cases(nn, func(i int) string { return fmt.Sprintf("names|i=%d %s", i, c09NamePlanOf(i)) }, func(i int, k *fw.K) { c09NamesCase(k, i) })
	// every ISO 3166-1 country as issuing state (cheapest profile)
	states := refverify.ISOAlpha3Codes()
	c.Cases(len(states), func(i int) string { return fmt.Sprintf("state|i=%d %s", i, states[i]) }, func(i int, k *fw.K) { c09StateCase(k, i) })
}
