package checks

import (
	"fmt"
	mrand "math/rand/v2"

	"github.com/gmrtd/gmrtd/iso7816"

	"verifharness/chipsim"
	"verifharness/fw"
	"verifharness/symref"
)

// C13 - file reads return exactly the stored file or an error.
// The simulated chip stores one target file among neighbours with recognisable content
// and applies a chunking policy; the oracle compares NfcSession.ReadFile's result with
// the stored top-level object and looks at the READ BINARY commands the chip received.

func init() {
	register(&fw.Spec{
		ID:    "C13",
		Level: "exploration",
		Rule: "case = (file header form, total size, trailing bytes, chip chunking behaviour, max-read setting, plain or under secure messaging) read with NfcSession.ReadFile from the simulated chip (READ BINARY with P1 bit 8 resolved as short-EF reference as ICAO 9303-10 requires); boundary product of sizes {2..7,126..131,254..262,32763..32772,65530..65539} x header forms x behaviours {all requested, caps 1,2,3,7,100,223,231,255,256, random short reads, Le caps answering 6700 / 6Cxx, jmrtd zero-read} x max-read {1..65536 boundary set}, plus random cases; " +
			"fallback-ladder product: header probe answered with 1..4 bytes x Le caps {100,127..129,191..193,200,254..256} refusing with 6700 / 6Cxx x {first block refused once, single-byte reads then the 3rd / 4th read refused once} x sizes around 128/192/256 x header forms x max-read {128..257,1000,65536} with and without extended length; " +
			"SELECT EF status sweep: the chip stores the file and answers SELECT EF with each of a representative set of status words (thorough: all 65536), plain and as protected status under secure messaging, with and without another current file: 'not found' only for 6A82 / 6283, data only if the chip completed the selection and then exact; " +
			"answers not taken from the stored file: the chip selected the file and answers the header probe / the n-th read / every read from the n-th on with 9000 (or 6282) and no data, the header probe with an incomplete header (1..3 bytes) or with filler bytes (00, 00 00, FF, ...), or the file is blank (only 00 / only FF) x header forms x sizes {1..7,40,130,259,300,1000} x max-read {1,3,4,128,256,1000,65536} x plain / 3DES / AES x with and without another current file: never 'not found', exact when the answers come from the file; " +
			"read histories: 3..12 operations on ONE session against ONE chip that keeps its current file as a real chip does (a SELECT EF that does not complete leaves the previous file current, SELECT MF / by AID leave none) - ReadFile of stored files, of absent files (6A82), of files whose SELECT EF follows a script of refusals / warnings / 'not there' statuses (so a file can become readable later), of files asked for before (favoured), reads with one READ BINARY refused once or an empty header answer, SelectEF called directly, SelectMF, SelectAid (011D is EF.CardSecurity in the MF and EF.SOD in the application), secure messaging from the start or from the middle, every chunking behaviour; every single result is judged: exact bytes of THAT file in the directory current at that moment, or an error; 'not found' only if the chip answered 6A82 / 6283 to the SELECT EF of that file; " +
			"non-trivial = the file exists on the chip (histories: always); distinct = the case tuple / the history",
		MinEvaluations: 2000,
		Assumptions: []string{
			"the simulated chip follows ICAO 9303-10: READ BINARY with even INS and P1 bit 8 set addresses a short EF identifier; offsets are 15 bits",
			"an error return is always acceptable; exactness is demanded of successful returns only; (nil,nil) is 'not found'",
			"the chip 'says the file is not there' with 6A82 (file not found) or 6283 (selected file deactivated) and with no other status word",
			"when the chip answers the header probe with bytes that are not the stored file's (filler) or the file is blank there is no stored data object to compare with: only \"never 'not found'\" is demanded there",
			"in a history a ReadFile that sends no SELECT EF is not a violation by itself: only its result is judged ('not found' is then accepted when the chip's last answer to a SELECT EF of that file in the current directory said so)",
		},
		Run: runC13,
	})
}

type c13File struct {
	tagLen  int // 1 or 2
	lenForm int // 0 short, 1 = 81, 2 = 82, 3 = 83 (non-minimal forms included via value)
	total   int // header + content
	trail   int // bytes stored after the object
}

// headerLen returns the header length and content length of the form, ok = representable.
func (f c13File) headerLen() (hdr, content int, ok bool) {
	hdr = f.tagLen + 1 + f.lenForm
	content = f.total - hdr
	switch {
	case content < 0, f.lenForm == 0 && content > 0x7f, f.lenForm == 1 && content > 0xff, content > 0xffff:
		return hdr, content, false
	}
	return hdr, content, true
}

// build returns the stored file and the object (what ReadFile must return).
func (f c13File) build(r *mrand.Rand) (stored, object []byte, ok bool) {
	var hdr []byte
	if f.tagLen == 1 {
		hdr = []byte{[]byte{0x60, 0x61, 0x75, 0x77, 0x6E}[r.IntN(5)]}
	} else {
		hdr = []byte{0x7F, []byte{0x61, 0x60, 0x2E}[r.IntN(3)]}
	}
	lf := 1 + f.lenForm
	if f.lenForm == 0 {
		lf = 1
	}
	content := f.total - len(hdr) - lf
	if content < 0 {
		return nil, nil, false
	}
	switch f.lenForm {
	case 0:
		if content > 0x7f {
			return nil, nil, false
		}
		hdr = append(hdr, byte(content))
	case 1:
		if content > 0xff {
			return nil, nil, false
		}
		hdr = append(hdr, 0x81, byte(content))
	case 2:
		if content > 0xffff {
			return nil, nil, false
		}
		hdr = append(hdr, 0x82, byte(content>>8), byte(content))
	case 3:
		if content > 0xffff {
			return nil, nil, false
		}
		hdr = append(hdr, 0x83, 0, byte(content>>8), byte(content))
	}
	object = append(hdr, make([]byte, content)...)
	// position-dependent content: a repeated or shifted segment is visible
	for i := len(hdr); i < len(object); i++ {
		object[i] = byte(i*7) ^ byte(i>>8) ^ byte(i>>13)
	}
	stored = append(append([]byte{}, object...), randBytes(r, f.trail)...)
	return stored, object, true
}

type c13Behaviour struct {
	name      string
	maxReturn int
	shortRnd  bool
	leCap     int
	leCapSW   uint16
	zeroAbove int
	extended  bool
	eofWarn   bool
	page      int // responses never cross a multiple of this offset
}

var c13Behaviours = []c13Behaviour{
	{name: "all", extended: true},
	{name: "all-noext"},
	{name: "cap1", maxReturn: 1, extended: true},
	{name: "cap2", maxReturn: 2, extended: true},
	{name: "cap3", maxReturn: 3, extended: true},
	{name: "cap7", maxReturn: 7, extended: true},
	{name: "cap100", maxReturn: 100, extended: true},
	{name: "cap223", maxReturn: 223},
	{name: "cap231", maxReturn: 231, extended: true},
	{name: "cap255", maxReturn: 255},
	{name: "cap256", maxReturn: 256, extended: true},
	{name: "random-short", shortRnd: true, extended: true},
	{name: "lecap231-6700", leCap: 231, leCapSW: 0x6700, extended: true},
	{name: "lecap128-6700", leCap: 128, leCapSW: 0x6700},
	{name: "lecap100-6700", leCap: 100, leCapSW: 0x6700, extended: true},
	{name: "lecap200-6Cxx", leCap: 200, leCapSW: 0x6C00, extended: true},
	{name: "zero-above-235", zeroAbove: 235, extended: true},
	{name: "all-eofwarn", extended: true, eofWarn: true},
	{name: "page256", extended: true, page: 256},
	{name: "page128", page: 128},
}

// 32763..32765: the read after the header read starts at offset 32767 / 32768 / 32769 (15-bit offset boundary)
var c13MaxReads = []int{1, 2, 3, 4, 5, 127, 128, 129, 192, 255, 256, 257, 1000, 32763, 32764, 32765, 32767, 32768, 65535, 65536}

var c13Sizes = func() []int {
	var s []int
	for _, b := range [][2]int{{2, 7}, {126, 131}, {254, 262}, {32763, 32772}, {65530, 65539}} {
		for v := b[0]; v <= b[1]; v++ {
			s = append(s, v)
		}
	}
	return s
}()

type c13Case struct {
	f      c13File
	beh    int
	maxRd  int
	sm     int // 0 plain, 1 3DES, 2 AES
	absent int // 0 present, 1 select answers 6A82, 2 select answers 6283

	// chip deviations layered on the behaviour (see c13_ladder.go); all zero = off
	hdrAns  int    // the header probe (offset 0, Ne <= 4) is answered with at most this many bytes
	leCap   int    // overrides the behaviour's Le cap ...
	leCapSW uint16 // ... and the status it refuses with
	trickle int    // reads that start at an offset in 1..trickle-1 deliver one byte
	failNth int    // the n-th READ BINARY that would deliver data (1 = header probe) is refused once ...
	failSW  uint16 // ... with this status
	// SELECT status sweep (see c13_select.go)
	selOn bool   // SELECT EF of the target is answered with selSW (protected status under SM)
	selSW uint16 //
	prior bool   // a neighbour EF is selected before the target is read
	// answers that are not taken from the stored file (see c13_empty.go); all zero = off
	emptyNth  int    // the n-th READ BINARY that reaches the file (1 = header probe) is answered without data ...
	emptyFrom bool   // ... and so is every later one (false: only that one)
	emptySW   uint16 // ... with this status (0 = 9000)
	warnNth   int    // the n-th READ BINARY is answered with ALTERED data of the right length ...
	warnSW    uint16 // ... under this status word (not 9000, not 6282): the data must not be used
	hdrLit    string // hex: the header probe is answered with these bytes (and 9000) instead of the file's
	blank     int    // 1 / 2: the stored file consists of 00 / FF bytes only (no data object to return)
}

func (cs c13Case) String() string {
	s := fmt.Sprintf("tag%d/len%d/total%d/trail%d beh=%s maxread=%d sm=%d absent=%d", cs.f.tagLen, cs.f.lenForm, cs.f.total, cs.f.trail, c13Behaviours[cs.beh].name, cs.maxRd, cs.sm, cs.absent)
	if cs.hdrAns != 0 || cs.leCap != 0 || cs.trickle != 0 || cs.failNth != 0 {
		s += fmt.Sprintf(" hdrans=%d lecap=%d/%04x trickle=%d fail=%d/%04x", cs.hdrAns, cs.leCap, cs.leCapSW, cs.trickle, cs.failNth, cs.failSW)
	}
	if cs.selOn {
		s += fmt.Sprintf(" select-sw=%04x prior=%v", cs.selSW, cs.prior)
	}
	if cs.warnNth != 0 {
		s += fmt.Sprintf(" altered-data-under=%04x@read%d", cs.warnSW, cs.warnNth)
	}
	if cs.emptyNth != 0 || cs.hdrLit != "" || cs.blank != 0 {
		s += fmt.Sprintf(" empty=%d/from=%v/%04x hdrlit=%q blank=%d prior=%v", cs.emptyNth, cs.emptyFrom, cs.emptySW, cs.hdrLit, cs.blank, cs.prior)
	}
	return s
}

func c13Run(k *fw.K, cs c13Case) {
	r := k.RNG
	stored, object, ok := cs.f.build(r)
	if cs.blank != 0 {
		// a blank elementary file: nothing but 00 or FF bytes
		stored = make([]byte, cs.f.total+cs.f.trail)
		for i := range stored {
			stored[i] = []byte{0x00, 0xFF}[cs.blank-1]
		}
		object, ok = nil, true
	}
	if !ok {
		k.Count("skipped_unbuildable_header")
		return
	}
	b := c13Behaviours[cs.beh]
	card := chipsim.NewCard()
	card.Extended = b.extended
	card.MaxReturn = b.maxReturn
	if b.shortRnd {
		card.ShortReadRNG = mrand.New(mrand.NewPCG(r.Uint64(), 3))
	}
	card.LeCap, card.LeCapSW, card.ZeroReadAbove, card.EOFWarning = b.leCap, b.leCapSW, b.zeroAbove, b.eofWarn
	card.PageSize = b.page
	if cs.leCap > 0 {
		card.LeCap, card.LeCapSW = cs.leCap, cs.leCapSW
	}
	deliverable := 0
	if cs.hdrAns > 0 || cs.trickle > 0 || cs.failNth > 0 {
		card.ReadPolicy = func(off, ne, n int) (int, uint16) {
			deliverable++
			if cs.failNth > 0 && deliverable == cs.failNth {
				return 0, cs.failSW
			}
			if cs.hdrAns > 0 && off == 0 && ne <= 4 {
				n = min(n, cs.hdrAns)
			}
			if cs.trickle > 0 && off > 0 && off < cs.trickle {
				n = 1
			}
			return n, 0
		}
	}
	c13InstallAnswers(card, cs)
	// neighbours with recognisable content under every short EF identifier
	for n := 1; n <= 16; n++ {
		nb := make([]byte, 300)
		for i := range nb {
			nb[i] = 0xA0 | byte(n&0x0f)
		}
		card.LDS[chipsim.FidDG(n)] = nb
	}
	card.LDS[chipsim.FidCOM] = []byte{0x60, 0x03, 0x5F, 0x01, 0x00}
	card.LDS[chipsim.FidSOD] = append([]byte{0x77, 0x82, 0x01, 0x00}, make([]byte, 256)...)
	const target = 0x0102
	if cs.absent == 0 {
		card.LDS[target] = stored
	} else {
		delete(card.LDS, target)
	}
	if cs.absent == 2 {
		card.Hook = func(ev *chipsim.Event) []byte {
			if ev.Cmd != nil && ev.Cmd.INS == 0xA4 && ev.Cmd.P1 == 0x02 && ev.SW == 0x6A82 && !ev.Protected {
				return []byte{0x62, 0x83}
			}
			return nil
		}
	}
	if cs.selOn {
		card.SelectEFStatus = func(fid uint16, stored bool) (uint16, bool, bool) {
			if fid != target {
				return 0, false, false
			}
			return cs.selSW, c13SelectCompletes(cs.selSW), true
		}
	}
	tr := &funcTransceiver{f: card.Transceive}
	nfc := iso7816.NewNfcSession(tr)
	if sel, err := nfc.SelectAid(chipsim.LDS1AID); err != nil || !sel {
		fw.LibFail("select-aid-failed", "SelectAid on the conforming simulated chip failed: %v", err)
	}
	if cs.sm > 0 {
		suite := symref.TDES
		if cs.sm == 2 {
			suite = symref.AES128
		}
		kenc, kmac := randKey(r, suite), randKey(r, suite)
		card.SM = chipsim.NewSM(suite, kenc, kmac, nil)
		nfc.SetSecureMessaging(newLibSM(k, suite, kenc, kmac, make([]byte, suite.BlockSize())))
	}
	nfc.SetMaxLe(cs.maxRd)
	if cs.prior {
		// history: another elementary file is the current file when the target is read
		if sel, err := nfc.SelectEF(chipsim.FidDG(1)); err != nil || !sel {
			fw.LibFail("select-ef-failed", "SelectEF of a stored neighbour file on the conforming simulated chip failed: %v (selected=%v)", err, sel)
		}
	}
	card.ReadBinaries = 0
	evStart := len(card.Events)
	data, err := nfc.ReadFile(target)

	det := func() map[string]any {
		var cmds []string
		for _, ev := range card.Events[evStart:] {
			if ev.Cmd != nil && len(cmds) < 12 {
				cmds = append(cmds, fmt.Sprintf("%02x %02x%02x ne=%d -> %d bytes %04x", ev.Cmd.INS, ev.Cmd.P1, ev.Cmd.P2, ev.Cmd.Ne, len(ev.Data), ev.SW))
			}
		}
		return map[string]any{"case": cs.String(), "stored_head": hexCap(stored, 12), "object_len": len(object), "returned_len": len(data), "returned_head": hexCap(data, 12),
			"read_binaries": card.ReadBinaries, "sfi_reads": card.SFIReads, "first_commands": cmds, "err": fmt.Sprint(err)}
	}
	if cs.absent == 0 {
		k.Nontrivial(cs.String())
	}
	c13LadderCounters(k, cs, card.Events[evStart:])
	if card.ReadBinaries > 1+1000+3 {
		k.Violation("readfile:chunk-limit", fmt.Sprintf("%d READ BINARY commands for one file", card.ReadBinaries), det())
		return
	}
	k.Max("max_read_binaries_per_file", int64(card.ReadBinaries))
	if len(card.SFIReads) > 0 {
		k.Count("reads_resolved_as_short_ef_reference")
	}
	if cs.selOn {
		c13SelectOracle(k, cs, data, err, object, det)
		return
	}
	c13AnswerCounters(k, cs, card.Events[evStart:], data, err)
	if cs.hdrLit != "" || cs.blank != 0 {
		c13ForeignBytesOracle(k, cs, data, err, det)
		return
	}
	if err != nil {
		k.Count("result_error")
		if cs.absent != 0 {
			k.Count("absent_reported_as_error")
		}
		return
	}
	if data == nil {
		if cs.absent != 0 {
			k.Count("result_not_found_genuine")
			return
		}
		key := "readfile:not-found-but-present"
		if len(object) <= 4 {
			key = "readfile:not-found-but-present:object<=4-bytes"
		}
		key += c13AnswerKeySuffix(cs)
		k.Violation(key, fmt.Sprintf("ReadFile returned (nil, nil) = 'not found' although SELECT succeeded and the chip stores a %d-byte object", len(object)), det())
		return
	}
	if cs.absent != 0 {
		k.Violation("readfile:data-for-absent-file", "ReadFile returned data for a file the chip does not have", det())
		return
	}
	if !bytesEq(data, object) {
		key := "readfile:wrong-bytes"
		switch {
		case len(card.SFIReads) > 0:
			key = "readfile:wrong-bytes:offset>=32768-read-as-short-ef"
		case len(data) < len(object) && bytesEq(data, object[:len(data)]):
			key = "readfile:prefix"
		case len(data) > len(object):
			key = "readfile:too-long"
		default:
			key += c13RefusedReadSuffix(card.Events[evStart:])
		}
		k.Violation(key, fmt.Sprintf("ReadFile returned %d bytes that differ from the stored %d-byte object", len(data), len(object)), det())
		return
	}
	k.Count("result_exact")
	c13LadderExact(k, cs, card.Events[evStart:])
	if len(card.SFIReads) > 0 {
		k.Count("exact_despite_short_ef_reads")
	}
	k.Sample("exact", map[string]any{"case": cs.String(), "read_binaries": card.ReadBinaries})
}

func runC13(c *fw.Ctx) {
	var cases []c13Case
	// boundary product
	for _, total := range c13Sizes {
		for tagLen := 1; tagLen <= 2; tagLen++ {
			for lenForm := 0; lenForm <= 3; lenForm++ {
				for beh := range c13Behaviours {
					for _, mr := range c13MaxReads {
						cases = append(cases, c13Case{f: c13File{tagLen: tagLen, lenForm: lenForm, total: total}, beh: beh, maxRd: mr})
					}
				}
			}
		}
	}
	prng := c.PlanRNG("c13")
	if c.Quick() {
		// a fixed pseudo-random 1/12 of the product, plus every size once with the plain behaviour
		var sel []c13Case
		for i, cs := range cases {
			if prng.IntN(12) == 0 || (cs.beh == 0 && cs.maxRd == 256 && cs.f.tagLen == 1) || (cs.beh == 9 && cs.maxRd == 255 && cs.f.lenForm == 2) {
				sel = append(sel, cases[i])
			}
		}
		cases = sel
	}
	// variants: trailing bytes, secure messaging, absent files, random sizes
	nrand := c.Pick(3000, 720000)
	for i := 0; i < nrand; i++ {
		cs := c13Case{beh: prng.IntN(len(c13Behaviours)), maxRd: c13MaxReads[prng.IntN(len(c13MaxReads))]}
		if prng.IntN(4) == 0 {
			cs.maxRd = 1 + prng.IntN(65536)
		}
		cs.f.tagLen = 1 + prng.IntN(2)
		switch prng.IntN(10) {
		case 0, 1, 2:
			cs.f.total = 2 + prng.IntN(300)
		case 3, 4, 5:
			cs.f.total = 2 + prng.IntN(5000)
		case 6:
			cs.f.total = 30000 + prng.IntN(35539)
		default:
			cs.f.total = c13Sizes[prng.IntN(len(c13Sizes))]
		}
		cs.f.lenForm = prng.IntN(4)
		if cs.f.total > 200 && cs.f.lenForm < 2 {
			cs.f.lenForm = 2
		}
		if prng.IntN(3) == 0 {
			cs.f.trail = 1 + prng.IntN(40)
		}
		if prng.IntN(3) == 0 {
			cs.sm = 1 + prng.IntN(2)
		}
		if prng.IntN(15) == 0 {
			cs.absent = 1 + prng.IntN(2)
		}
		// chip deviations on top of the behaviour: short header answer, own Le cap, single-byte
		// reads near the start, one read refused once
		if prng.IntN(4) == 0 {
			cs.hdrAns = 1 + prng.IntN(4)
		}
		if prng.IntN(6) == 0 {
			cs.leCap = c13LadderLeCaps[1+prng.IntN(len(c13LadderLeCaps)-1)]
			cs.leCapSW = []uint16{0x6700, 0x6C00}[prng.IntN(2)]
		}
		if prng.IntN(8) == 0 {
			cs.trickle = 2 + prng.IntN(6)
		}
		if prng.IntN(6) == 0 {
			cs.failNth = 2 + prng.IntN(4)
			cs.failSW = c13RefuseOnceSWs[prng.IntN(len(c13RefuseOnceSWs))]
		}
		cases = append(cases, cs)
	}
	if c.Quick() {
		cases = append(cases, c13LadderQuick(c.Seed)...)
	}
	cases = append(cases, c13SelectCases()...)
	if c.Quick() {
		cases = append(cases, c13AnswerQuick(c.Seed)...)
	}
	c.Cases(len(cases), func(i int) string { return "read|" + cases[i].String() }, func(i int, k *fw.K) {
		c13Run(k, cases[i])
	})
	// a READ BINARY answered with altered data under a warning / error status that is not a
	// success (6281 "part of the returned data may be corrupted", 6283, 62xx, 63xx, 64xx ...)
	warn := c13WarnCases()
	c.Cases(len(warn), func(i int) string { return "read-warn|" + warn[i].String() }, func(i int, k *fw.K) {
		c13Run(k, warn[i])
	})
	// read histories: several ReadFile calls on one session against one chip
	directed := c13DirectedHistories()
	c.Cases(len(directed), func(i int) string { return fmt.Sprintf("history|directed=%d", i) }, func(i int, k *fw.K) {
		c13RunHistory(k, directed[i])
	})
	c.Cases(c.Pick(2500, 150000), func(i int) string { return fmt.Sprintf("history|random=%d", i) }, func(i int, k *fw.K) {
		c13RunHistory(k, c13GenHistory(k.RNG))
	})
	// whole documents read from chips that lack some of the files their EF.SOD lists
	docConfigs := []int{}
	for ci := 0; ci < c.Pick(6, 18); ci++ {
		docConfigs = append(docConfigs, ci)
	}
	for j := 0; j < c.Pick(2, 3); j++ {
		docConfigs = append(docConfigs, c11Open+j)
	}
	nvar := c13DocumentVariants(c.Quick())
	c.Cases(len(docConfigs)*nvar, func(i int) string { return fmt.Sprintf("document|config=%d variant=%d", docConfigs[i/nvar], i%nvar) }, func(i int, k *fw.K) {
		c13RunDocument(k, docConfigs[i/nvar], i%nvar)
	})
	if c.Quick() {
		return
	}
	// thorough: the whole product of answers that are not taken from the file, by index
	c.Cases(c13AnswerN, func(i int) string {
		cs, _ := c13AnswerAt(i)
		return "answer|" + cs.String()
	}, func(i int, k *fw.K) {
		cs, ok := c13AnswerAt(i)
		if !ok {
			k.Count("answer_product_unbuildable_or_duplicate")
			k.AddEvals(-1) // nothing was executed
			return
		}
		c13Run(k, cs)
	})
	// thorough: the whole fallback-ladder product and all 65536 SELECT statuses, by index
	c.Cases(c13LadderN, func(i int) string {
		cs, _ := c13LadderAt(c.Seed, i)
		return "ladder|" + cs.String()
	}, func(i int, k *fw.K) {
		cs, ok := c13LadderAt(c.Seed, i)
		if !ok {
			k.Count("ladder_product_duplicate_combination")
			k.AddEvals(-1) // nothing was executed
			return
		}
		if _, _, buildable := cs.f.headerLen(); !buildable {
			k.Count("ladder_product_unbuildable_header")
			k.AddEvals(-1) // nothing was executed
			return
		}
		c13Run(k, cs)
	})
	c.Cases(c13SelectSweepN, func(i int) string { return "select|" + c13SelectSweepAt(i).String() }, func(i int, k *fw.K) {
		c13Run(k, c13SelectSweepAt(i))
	})
}
