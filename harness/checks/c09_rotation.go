package checks

import (
	"fmt"
	"math/big"
	"time"

	"github.com/gmrtd/gmrtd/document"
	"github.com/gmrtd/gmrtd/passiveauth"

	"verifharness/fw"
	"verifharness/issuer"
	"verifharness/ldsgen"
)

// C09, dimension "EF.SOD and EF.CardSecurity are two security objects of their own": each
// has its own signer certificate, its own signing time and is valid when ITS signer (and
// that signer's CSCA) is valid at ITS signing time. The base cases sign both objects with
// one document signer at one instant; here the CardSecurity signer is another ("rotated")
// document signer - optionally below a rolled-over CSCA - whose validity window lies after,
// before, or entirely apart from the SOD's signing time (and the other way round: the SOD
// signer's window not containing CardSecurity's signing time), each object signed inside its
// own signer's window, with and without the signing-time attribute on either object (without
// it the library documents that validity is not judged for that object - cms.resolveSigningTime).
// Oracle: the document is genuine, so passiveauth.PassiveAuth succeeds and records both
// objects, and cms.SignedData.Verify succeeds on each object alone.

var c09RotRelations = []string{
	"overlap-control",
	"cs-signer-begins-after-sod-time",
	"cs-signer-ends-before-sod-time",
	"windows-disjoint-cs-later",
	"windows-disjoint-cs-earlier",
	"sod-signer-ends-before-cs-time",
	"sod-signer-begins-after-cs-time",
	"same-signer-different-times",
}

type c09RotPlan struct {
	rel      int
	sodTime  bool
	csTime   bool
	edge     int           // relations 1-4: 0 inside, 1 at notBefore, 2 at notAfter of the CardSecurity signer
	gap      time.Duration // distance between the foreign signing time and the window that excludes it
	rollover bool          // relations 1-4: the CardSecurity signer is issued by a second CSCA with the same exclusion
}

func (p c09RotPlan) String() string {
	return fmt.Sprintf("rel=%s sodtime=%v cstime=%v edge=%d gap=%s rollover=%v", c09RotRelations[p.rel], p.sodTime, p.csTime, p.edge, p.gap, p.rollover)
}

var c09RotGaps = []time.Duration{time.Second, time.Hour, 9 * 24 * time.Hour, 400 * 24 * time.Hour}

// c09RotPlanOf is a pure function of the case index: relation x attribute presence are
// enumerated, edge / gap / rollover cycle with co-prime periods.
func c09RotPlanOf(i int) c09RotPlan {
	nrel := len(c09RotRelations)
	p := c09RotPlan{rel: i % nrel}
	t := (i / nrel) % 4
	p.sodTime, p.csTime = t&1 == 0, t&2 == 0 // both present first
	j := i / (nrel * 4)
	p.edge = (j + i) % 3
	p.gap = c09RotGaps[(j+i/nrel)%len(c09RotGaps)]
	p.rollover = (j+i/3)%3 == 0 && p.rel >= 1 && p.rel <= 4
	return p
}

func c09TimeTag(b bool, what string) string {
	if b {
		return what + "-time"
	}
	return what + "-notime"
}

func c09RotationCase(k *fw.K, i int) {
	r := k.RNG
	pl := c09RotPlanOf(i)
	ck := c09Cheap()
	cscaKind, aKind, bKind := ck[r.IntN(len(ck))], ck[r.IntN(len(ck))], ck[r.IntN(len(ck))]
	aPSS, bPSS, cscaPSS := r.IntN(2) == 0, r.IntN(2) == 0, r.IntN(2) == 0
	digest := issuer.AllHashes[r.IntN(5)]
	certHash := issuer.AllHashes[1+r.IntN(4)]
	cc := c09Countries[r.IntN(len(c09Countries))]
	desc := fmt.Sprintf("%s csca=%d/%v a=%d/%v b=%d/%v digest=%v cc=%s", pl, cscaKind, cscaPSS, aKind, aPSS, bKind, bPSS, digest, cc[0])
	k.Nontrivial(desc)

	tS := issuer.BaseTime
	y := func(t time.Time, n int) time.Time { return t.AddDate(n, 0, 0) }
	half := (pl.gap / 2).Truncate(time.Second)
	within := time.Duration(1+r.IntN(30*24*3600)) * time.Second
	aNB, aNA := y(tS, -1), y(tS, 5)
	var bNB, bNA, tC time.Time
	place := func() { // CardSecurity signing time inside its signer's window
		switch pl.edge {
		case 1:
			tC = bNB
		case 2:
			tC = bNA
		default:
			if pl.rel == 2 || pl.rel == 4 {
				tC = bNA.Add(-within)
			} else {
				tC = bNB.Add(within)
			}
		}
	}
	switch pl.rel {
	case 0:
		bNB, bNA = tS.AddDate(0, -6, 0), y(tS, 6)
		tC = tS.Add(pl.gap)
	case 1:
		bNB = tS.Add(pl.gap)
		bNA = y(bNB, 5)
		place()
	case 2:
		bNA = tS.Add(-pl.gap)
		bNB = y(bNA, -2)
		place()
	case 3:
		aNA = tS.Add(half)
		bNB = tS.Add(pl.gap)
		bNA = y(bNB, 5)
		place()
	case 4:
		aNB = tS.Add(-half)
		aNA = y(aNB, 5)
		bNA = tS.Add(-pl.gap)
		bNB = y(bNA, -2)
		place()
	case 5:
		aNA = tS.Add(half)
		bNB, bNA = y(tS, -1), y(tS, 6)
		tC = aNA.Add(pl.gap)
	case 6:
		aNB = tS.Add(-half)
		aNA = y(aNB, 5)
		bNB, bNA = y(tS, -3), y(tS, 3)
		tC = aNB.Add(-pl.gap)
	case 7:
		bNB, bNA = aNB, aNA
		tC = []time.Time{aNB, aNA, tS.Add(pl.gap)}[pl.edge]
	}
	// self-check of the generator: every object is signed inside its own signer's window
	if tS.Before(aNB) || tS.After(aNA) || tC.Before(bNB) || tC.After(bNA) {
		fw.Bug("c09 rotation: object signed outside its signer's window: %s", pl)
	}
	csExcludesSOD := tS.Before(bNB) || tS.After(bNA)
	sodExcludesCS := tC.Before(aNB) || tC.After(aNA)

	cscaName := issuer.SimpleName(cc[1], "Ministry of Interior", "CSCA "+cc[0])
	o := issuer.PKIOpts{Country: cc[1], CSCAKey: c09Key(r, cscaKind, false), DSKey: c09Key(r, aKind, false), CSCAPSS: cscaPSS, DSPSS: aPSS, CertHash: certHash, CSCAName: cscaName,
		CSCANotBefore: y(tS, -6), CSCANotAfter: y(tS, 14), DSNotBefore: aNB, DSNotAfter: aNA}
	o.DSName = issuer.SimpleName(cc[1], "Ministry of Interior", "DS A")
	pki := issuer.NewPKI(r, o)
	trust := [][]byte{pki.CSCACert}

	// the CardSecurity signer
	bKey := pki.DSKey
	bCert, bSerial, bIssuer, bScheme := pki.DSCert, pki.DSSerial, pki.CSCAName, issuer.SchemeFor(pki.DSKey, aPSS)
	if pl.rel != 7 {
		bKey = c09Key(r, bKind, false)
		bScheme = issuer.SchemeFor(bKey, bPSS)
		spec := pki.DSSpec
		bSerial = new(big.Int).Add(spec.Serial, big.NewInt(int64(1+r.IntN(1000))))
		spec.Serial, spec.Key, spec.SKI = bSerial, bKey, bKey.KeyID()
		spec.Subject = issuer.SimpleName(cc[1], "Ministry of Interior", "DS B")
		spec.NotBefore, spec.NotAfter = bNB, bNA
		signer := pki.CSCAKey
		if pl.rollover {
			// a second CSCA (new key, new name) whose window excludes the SOD's signing time too
			k2 := c09Key(r, ck[r.IntN(len(ck))], false)
			n2 := issuer.SimpleName(cc[1], "Ministry of Interior", "CSCA "+cc[0]+" G2")
			cs2 := pki.CSCASpec
			cs2.Serial = new(big.Int).Add(cs2.Serial, big.NewInt(7))
			cs2.Issuer, cs2.Subject, cs2.Key, cs2.SKI, cs2.AKI = n2, n2, k2, k2.KeyID(), k2.KeyID()
			cs2.Scheme = issuer.SchemeFor(k2, r.IntN(2) == 0)
			if pl.rel == 1 || pl.rel == 3 {
				cs2.NotBefore, cs2.NotAfter = bNB, y(bNB, 12)
			} else {
				cs2.NotBefore, cs2.NotAfter = y(bNA, -10), bNA
			}
			csca2 := issuer.BuildCert(r, cs2, k2)
			if r.IntN(2) == 0 {
				trust = append(trust, csca2)
			} else {
				trust = append([][]byte{csca2}, trust...)
			}
			spec.Issuer, spec.AKI, spec.Scheme = n2, k2.KeyID(), cs2.Scheme
			bIssuer, signer = n2, k2
		}
		bCert = issuer.BuildCert(r, spec, signer)
	}

	// files and EF.SOD
	f := ldsgen.RandMRZ(r, ldsgen.MRZOpts{Plain: true})
	f.IssuingState, f.Nationality = cc[0], cc[0]
	dg1, _ := ldsgen.NewDG1(r, ldsgen.DG1Opts{Fields: &f})
	files := map[int][]byte{1: dg1}
	if r.IntN(2) == 0 {
		files[11], _ = ldsgen.NewDG11(r, ldsgen.DG11Opts{})
	}
	hashes := map[int][]byte{}
	for n, b := range files {
		hashes[n] = digest.Sum(b)
	}
	ss := pki.SignerSpec(digest, r.IntN(2) == 0)
	ss.EContentType, ss.EContent = issuer.OIDLDSSecurityObject, issuer.LDSSpec{Hash: digest, DGHashes: hashes}.DER()
	if pl.sodTime {
		ss.SigningTime = &tS
	}
	sod := issuer.WrapSOD(issuer.BuildSignedData(r, ss))
	s2 := issuer.SignedDataSpec{SignerKey: bKey, Digest: digest, Scheme: bScheme, Certs: [][]byte{bCert}, SIDIssuerDER: bIssuer.DER(), SIDSerial: bSerial}
	if r.IntN(2) == 0 {
		s2.SIDSKI = bKey.KeyID()
	}
	s2.EContentType, s2.EContent = issuer.OIDSecurityObject, issuer.QuickSecurityInfos()
	if pl.csTime {
		s2.SigningTime = &tC
	}
	cs := issuer.BuildSignedData(r, s2)

	detail := map[string]any{"plan": desc, "sod_signing_time": tS.Format(time.RFC3339), "cs_signing_time": tC.Format(time.RFC3339),
		"sod_signer_window": aNB.Format(time.RFC3339) + " .. " + aNA.Format(time.RFC3339), "cs_signer_window": bNB.Format(time.RFC3339) + " .. " + bNA.Format(time.RFC3339),
		"sod": hexCap(sod, 3000), "card_security": hexCap(cs, 3000)}
	doc := &document.Document{}
	var err error
	if doc.Mf.Lds1.Sod, err = document.NewSOD(sod); err != nil {
		k.Violation("pa:rotated-signer:genuine-sod-rejected", fmt.Sprintf("NewSOD rejects a correctly issued security object: %v", err), detail)
		return
	}
	if doc.Mf.CardSecurity, err = document.NewCardSecurity(cs); err != nil {
		k.Violation("pa:rotated-signer:genuine-cardsecurity-rejected", fmt.Sprintf("NewCardSecurity rejects a correctly issued object: %v", err), detail)
		return
	}
	for n, b := range files {
		if err := doc.NewDG(n, b); err != nil {
			fw.LibFail("dg-rejected", "NewDG(%d) rejects a generated well-formed file: %v", n, err)
		}
	}
	rel := c09RotRelations[pl.rel]
	k.Count("rotation_documents")
	k.Count("rotation_" + rel)
	if csExcludesSOD {
		k.Count("rotation_cs_signer_window_excludes_sod_signing_time")
		if pl.sodTime {
			k.Count("rotation_cs_signer_window_excludes_sod_signing_time_attribute_present")
		}
	}
	if sodExcludesCS {
		k.Count("rotation_sod_signer_window_excludes_cs_signing_time")
	}
	if pl.rollover {
		k.Count("rotation_cs_signer_below_second_csca")
	}
	k.Count("rotation_" + c09TimeTag(pl.sodTime, "sod") + "_" + c09TimeTag(pl.csTime, "cs"))

	tags := rel + ":" + c09TimeTag(pl.sodTime, "sod") + ":" + c09TimeTag(pl.csTime, "cs")
	// each object alone
	_, sodErr := doc.Mf.Lds1.Sod.SD.Verify(trustPool(trust))
	_, csErr := doc.Mf.CardSecurity.SD.Verify(trustPool(trust))
	detail["standalone_sod_verify"], detail["standalone_cardsecurity_verify"] = fmt.Sprint(sodErr), fmt.Sprint(csErr)
	if sodErr != nil {
		k.Violation("cms:rotated-signer:genuine-sod-rejected:"+tags+c09Why(c09Profile{}, sodErr), fmt.Sprintf("SignedData.Verify fails on a correctly issued EF.SOD: %v", sodErr), detail)
		return
	}
	if csErr != nil {
		k.Violation("cms:rotated-signer:genuine-cardsecurity-rejected:"+tags+c09Why(c09Profile{}, csErr), fmt.Sprintf("SignedData.Verify fails on a correctly issued EF.CardSecurity: %v", csErr), detail)
		return
	}
	res, err := passiveauth.PassiveAuth(doc, trustPool(trust))
	if err != nil || res == nil || !res.Success {
		k.Violation("pa:rotated-signer:genuine-rejected:"+tags+c09Why(c09Profile{}, err)+":each-object-verifies-alone",
			fmt.Sprintf("passive authentication fails on a correctly issued document whose EF.CardSecurity has its own signer and signing time (each object verifies alone): %v", err), detail)
		return
	}
	if res.Sod == nil || res.CardSec == nil {
		k.Violation("pa:cardsecurity-not-verified", "both objects present but the verification of one is not recorded", detail)
		return
	}
	k.Count("rotation_accepted")
	if csExcludesSOD {
		k.Count("rotation_accepted_cs_signer_window_excludes_sod_signing_time")
	}
	if i%40 == 0 {
		delete(detail, "sod")
		delete(detail, "card_security")
		k.Sample("rotated-signer", detail)
	}
}
