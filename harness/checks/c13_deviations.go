package checks

import (
	"fmt"

	"verifharness/chipsim"
	"verifharness/fw"
)

// C13, further chip deviations. Two families of cases, both judged with the statement's
// own oracle (exact bytes, or an error; "not found" only when the chip says so):
//
//  1. the Le fallback ladder of ReadFile entered at every offset it can be entered at:
//     header probe answered with 1..4 bytes x Le caps around the ladder values 128/192/256
//     (refusing with 6700 or 6Cxx) x first-block reads refused once with an error status
//     x reads that deliver single bytes (so that the next read starts at offset 3, 4, 5)
//     x file sizes around the ladder values x header forms x max-read settings;
//  2. the status word answered to SELECT EF swept over a representative set (thorough:
//     all 65536), without and under secure messaging (protected status), with and without
//     another file being the current file.

// ---- 1. fallback ladder ------------------------------------------------------------------

var c13LadderLeCaps = []int{0, 100, 127, 128, 129, 191, 192, 193, 200, 254, 255, 256}

var c13LadderSizes = []int{5, 60, 129, 130, 131, 132, 133, 134, 140, 190, 193, 194, 195, 196, 197, 200, 203, 254, 255, 256, 257, 258, 259, 260, 261, 262, 300, 450, 1000, 2000}

type c13Transport struct {
	maxRd int
	beh   int // 0 = all (extended length), 1 = all-noext
}

var c13LadderTransports = []c13Transport{{128, 0}, {129, 0}, {192, 0}, {193, 0}, {200, 0}, {255, 0}, {256, 0}, {256, 1}, {257, 0}, {257, 1}, {1000, 0}, {1000, 1}, {65536, 0}, {65536, 1}}

// error statuses a chip may answer once to a READ BINARY (then it answers normally)
var c13RefuseOnceSWs = []uint16{0x6700, 0x6F00, 0x6982, 0x6A86, 0x6400, 0x6281, 0x6B00, 0x6CC0, 0x6985, 0x6E00}

// modes of the first reads after the header probe
//
//	0 nothing; 1 the first block read is refused once; 2 / 3 single-byte reads up to offset 4
//	and the 3rd / 4th read refused once (the retry starts at offset h+1 / h+2); 4 single-byte
//	reads up to offset 5 only
const c13LadderModes = 5

func c13LadderCore(cs c13Case) bool {
	in := func(v int, set ...int) bool {
		for _, s := range set {
			if v == s {
				return true
			}
		}
		return false
	}
	if !in(cs.leCap, 0, 128, 192, 200, 255) || !in(cs.f.total, 60, 129, 130, 203, 259, 450) || cs.hdrAns < 2 {
		return false
	}
	if !(cs.f.tagLen == 1 || cs.f.lenForm == 0) {
		return false
	}
	switch {
	case cs.maxRd == 256 && cs.beh == 0, cs.maxRd == 65536 && cs.beh == 0, cs.maxRd == 1000 && cs.beh == 1:
		return true
	}
	return false
}

// The ladder product is enumerated by index (mixed radix), so that the thorough tier does
// not have to hold it in memory; combinations that cannot be built are skipped by c13Run.
const c13LadderN = 4 * 12 * 2 * c13LadderModes * 30 * 2 * 3 * 14

func c13Mix(seed int64, i int) uint64 {
	z := uint64(seed)*0x9E3779B97F4A7C15 + uint64(i) + 0x632BE59BD9B4E019
	z = (z ^ (z >> 30)) * 0xBF58476D1CE4E5B9
	z = (z ^ (z >> 27)) * 0x94D049BB133111EB
	return z ^ (z >> 31)
}

// c13LadderAt returns case i of the ladder product; ok is false for the combinations that
// repeat another one (no Le cap x second refusal status; no deviation at all).
func c13LadderAt(seed int64, i int) (cs c13Case, ok bool) {
	if len(c13LadderLeCaps) != 12 || len(c13LadderSizes) != 30 || len(c13LadderTransports) != 14 {
		fw.Bug("c13LadderN does not match the ladder sets")
	}
	x := i
	next := func(n int) int { v := x % n; x /= n; return v }
	t := c13LadderTransports[next(14)]
	lenForm := next(3)
	tagLen := 1 + next(2)
	total := c13LadderSizes[next(30)]
	mode := next(c13LadderModes)
	lsw := []uint16{0x6700, 0x6C00}[next(2)]
	lc := c13LadderLeCaps[next(12)]
	h := 1 + next(4)
	if (lc == 0 && lsw != 0x6700) || (mode == 0 && lc == 0 && h == 4) {
		return cs, false
	}
	cs = c13Case{f: c13File{tagLen: tagLen, lenForm: lenForm, total: total}, beh: t.beh, maxRd: t.maxRd, hdrAns: h}
	if lc > 0 {
		cs.leCap, cs.leCapSW = lc, lsw
	}
	switch mode {
	case 1:
		cs.failNth = 2
	case 2:
		cs.trickle, cs.failNth = 4, 3
	case 3:
		cs.trickle, cs.failNth = 4, 4
	case 4:
		cs.trickle = 5
	}
	u := c13Mix(seed, i)
	if cs.failNth > 0 {
		cs.failSW = c13RefuseOnceSWs[int(u>>8&0xff)%len(c13RefuseOnceSWs)]
	}
	if (u>>16)%4 == 0 {
		cs.sm = 1 + int(u>>20)%2
	}
	if (u>>24)%5 == 0 {
		cs.f.trail = 1 + int(u>>27)%32
	}
	return cs, true
}

// quick tier: the core (always) plus a seed-determined 1/128 of the rest
func c13LadderQuick(seed int64) []c13Case {
	var out []c13Case
	for i := 0; i < c13LadderN; i++ {
		cs, ok := c13LadderAt(seed, i)
		if !ok {
			continue
		}
		if _, _, buildable := cs.f.headerLen(); !buildable {
			continue
		}
		if c13LadderCore(cs) || c13Mix(seed+1, i)%128 == 0 {
			out = append(out, cs)
		}
	}
	return out
}

// retries returns the offsets of READ BINARY commands that directly follow a refused READ BINARY
func c13Retries(events []chipsim.Event) (offsets []int, hdrLen int) {
	hdrLen = -1
	refused := false
	for _, ev := range events {
		if ev.Cmd == nil || ev.Cmd.INS != 0xB0 {
			refused = false
			continue
		}
		off := int(ev.Cmd.P1)<<8 | int(ev.Cmd.P2)
		if hdrLen < 0 && off == 0 && ev.SW == 0x9000 {
			hdrLen = len(ev.Data)
		}
		if refused && ev.Cmd.P1&0x80 == 0 {
			offsets = append(offsets, off)
		}
		refused = ev.SW != 0x9000 && ev.SW != 0x6282
	}
	return offsets, hdrLen
}

// c13RefusedReadSuffix refines the key of a wrong-bytes violation: was a READ BINARY refused
// and the next one sent for another offset than the refused one?
func c13RefusedReadSuffix(events []chipsim.Event) string {
	refusedAt := -1
	suffix := ""
	for _, ev := range events {
		if ev.Cmd == nil || ev.Cmd.INS != 0xB0 || ev.Cmd.P1&0x80 != 0 {
			refusedAt = -1
			continue
		}
		off := int(ev.Cmd.P1)<<8 | int(ev.Cmd.P2)
		if refusedAt >= 0 {
			if off != refusedAt {
				return fmt.Sprintf(":read-refused-at-offset-%s-retried-at-another-offset", c13OffsetName(refusedAt))
			}
			suffix = ":after-refused-read-retried-at-the-same-offset"
		}
		refusedAt = -1
		if ev.SW != 0x9000 && ev.SW != 0x6282 {
			refusedAt = off
		}
	}
	return suffix
}

func c13OffsetName(off int) string {
	if off >= 2 && off <= 5 {
		return fmt.Sprint(off)
	}
	if off < 2 {
		return "below_2"
	}
	return "above_5"
}

func c13LadderCounters(k *fw.K, cs c13Case, events []chipsim.Event) {
	retries, hdrLen := c13Retries(events)
	if hdrLen >= 0 && hdrLen < 4 && cs.f.total >= 4 {
		k.Count(fmt.Sprintf("header_probe_answered_with_%d_bytes", hdrLen))
	}
	seen := map[string]bool{}
	for _, off := range retries {
		n := c13OffsetName(off)
		if !seen[n] {
			seen[n] = true
			k.Count("retry_after_refused_read_at_offset_" + n)
		}
	}
}

func c13LadderExact(k *fw.K, cs c13Case, events []chipsim.Event) {
	retries, hdrLen := c13Retries(events)
	seen := map[string]bool{}
	for _, off := range retries {
		n := c13OffsetName(off)
		if !seen[n] {
			seen[n] = true
			k.Count("exact_after_retry_at_offset_" + n)
		}
	}
	if len(retries) > 0 && hdrLen >= 0 && hdrLen < 4 {
		k.Count("exact_after_short_header_answer_and_retry")
		k.Sample("exact-after-short-header-and-retry", map[string]any{"case": cs.String(), "header_answer": hdrLen, "retry_offsets": fmt.Sprint(retries)})
	}
}

// ---- 2. SELECT status sweep ----------------------------------------------------------------

// Statuses that say "the file is not there" (ISO/IEC 7816-4: 6A82 file or application not
// found; 6283 selected file deactivated, which ReadFile documents as "not found" because a
// deactivated file cannot be read). Every other status is something else: a refusal, a
// malfunction, a warning, success.
func c13SelectSaysNotThere(sw uint16) bool { return sw == 0x6A82 || sw == 0x6283 }

// The simulated chip completes the selection (the file becomes the current file) when the
// status belongs to the "process completed" classes 9000 / 61xx / 62xx / 63xx, and leaves
// the current file unchanged for the "process aborted" classes and for values that are not
// status words at all.
func c13SelectCompletes(sw uint16) bool {
	switch sw >> 8 {
	case 0x61, 0x62, 0x63:
		return true
	}
	return sw == 0x9000
}

var c13SelectStatuses = []uint16{
	0x6200, 0x6281, 0x6282, 0x6283, 0x6284, 0x6285, 0x6286, 0x62F1,
	0x6300, 0x6381, 0x63C0, 0x63C3, 0x63CF,
	0x6400, 0x6401, 0x6500, 0x6581, 0x6600, 0x6700,
	0x6800, 0x6881, 0x6882, 0x6883, 0x6884,
	0x6900, 0x6981, 0x6982, 0x6983, 0x6984, 0x6985, 0x6986, 0x6987, 0x6988,
	0x6A00, 0x6A80, 0x6A81, 0x6A82, 0x6A83, 0x6A84, 0x6A85, 0x6A86, 0x6A87, 0x6A88, 0x6A89, 0x6A8A,
	0x6B00, 0x6C00, 0x6C04, 0x6CFF, 0x6D00, 0x6E00, 0x6F00, 0x6F82, 0x6FFF,
	0x9000, 0x9001, 0x9082, 0x9100, 0x91AF, 0x9F04,
	0x6100, 0x6104, 0x6182, 0x61FF,
	0x6000, 0x6082, 0x0000, 0x0090, 0x826A, 0x8362, 0x8269, 0xFFFF,
}

var (
	c13SelectSmall = c13File{tagLen: 1, lenForm: 0, total: 40}
	c13SelectLarge = c13File{tagLen: 1, lenForm: 2, total: 300, trail: 3}
)

// c13SelectVariant: the six (secure messaging, prior current file) variants of one status
func c13SelectVariant(sw uint16, f c13File, v int) c13Case {
	return c13Case{f: f, maxRd: 256, sm: v % 3, selOn: true, selSW: sw, prior: v/3 == 1}
}

// representative set x two files x six variants
func c13SelectCases() []c13Case {
	var out []c13Case
	for _, sw := range c13SelectStatuses {
		for v := 0; v < 6; v++ {
			out = append(out, c13SelectVariant(sw, c13SelectSmall, v), c13SelectVariant(sw, c13SelectLarge, v))
		}
	}
	return out
}

// thorough tier: all 65536 values x six variants, by index
const c13SelectSweepN = 65536 * 6

func c13SelectSweepAt(i int) c13Case {
	return c13SelectVariant(uint16(i/6), c13SelectSmall, i%6)
}

func c13SelectOracle(k *fw.K, cs c13Case, data []byte, err error, object []byte, det func() map[string]any) {
	class := fmt.Sprintf("%02xxx", cs.selSW>>8)
	switch {
	case cs.selSW == 0x9000:
		class = "9000"
	case c13SelectSaysNotThere(cs.selSW):
		class = fmt.Sprintf("%04x", cs.selSW)
	case cs.selSW>>8 < 0x61 || (cs.selSW>>8 > 0x6F && cs.selSW>>8 != 0x90):
		class = "not-a-status-word"
	}
	k.Count("select_status_cases")
	if cs.sm > 0 {
		k.Count("select_status_cases_protected_status")
	}
	if err != nil {
		k.Count("select_status_" + class + "_error")
		return
	}
	if data == nil {
		if c13SelectSaysNotThere(cs.selSW) {
			k.Count("select_status_" + class + "_not_found")
			return
		}
		k.Violation(fmt.Sprintf("readfile:not-found-but-select-answered:%04x", cs.selSW),
			fmt.Sprintf("ReadFile returned (nil, nil) = 'not found' although the chip stores the file and answered SELECT EF with %04x, which does not say that the file is not there", cs.selSW), det())
		return
	}
	if !c13SelectCompletes(cs.selSW) {
		k.Violation(fmt.Sprintf("readfile:data-although-select-refused:%04x", cs.selSW),
			fmt.Sprintf("ReadFile returned %d bytes although the chip refused SELECT EF with %04x and never made the file the current file", len(data), cs.selSW), det())
		return
	}
	if !bytesEq(data, object) {
		k.Violation(fmt.Sprintf("readfile:wrong-bytes:select-answered:%04x", cs.selSW),
			fmt.Sprintf("ReadFile returned %d bytes that differ from the stored %d-byte object (SELECT EF answered %04x)", len(data), len(object), cs.selSW), det())
		return
	}
	k.Count("select_status_" + class + "_exact")
}
