package checks

import (
	"errors"
	"fmt"
	"math/big"
	mrand "math/rand/v2"
	"verifharness/issuer"

	"github.com/gmrtd/gmrtd/document"
	"github.com/gmrtd/gmrtd/verifier"

	"verifharness/chipsim"
	"verifharness/der"
	"verifharness/ecref"
	"verifharness/fw"
	"verifharness/perso"
	"verifharness/symref"
)

// C02 - trust verdicts are gated on passive authentication and completeness.
// Part A enumerates the full product of exported Session fields; part B reads hostile
// chips end to end and re-judges the serialised result offline.

func init() {
	register(&fw.Spec{
		ID:    "C02",
		Level: "exploration",
		Rule: "part A (exhaustive in both tiers): the full product of Session outcomes - PA {absent, failed, failed with CardSecurity part set, ok, ok with CardSecurity} x AA/PACE-CAM/CA {absent, failed, ok}^3 x completeness error {nil, set} x the five step errors {nil, set} x BAC/PACE results {absent, failed, ok}^2 = 77760 sessions, each judged by Summary() and VerifiedChipAuthStatus(); " +
			"part B: end-to-end reads of hostile chips (clone without private keys, clone with its own DG14/DG15/CardSecurity and matching keys under the genuine SOD, DG14/DG15 withheld although listed, CardAccess advertising a PACE info that DG14 does not contain, untrusted issuer) x {BAC, PACE-GM, PACE-CAM} x {AA-RSA, AA-ECDSA, CA, none}, live and after serialisation + offline verification; " +
			"part B, configuration product: every scenario x reader configuration {default, SkipPace, SkipImages, caller-supplied AA challenge, small max-read, extended max-read, all switches} on an applicable chip drawn from {BAC, PACE-GM+BAC, PACE-GM, PACE-CAM, PACE-CAM+BAC} x {AA-RSA, AA-ECDSA, CA, none, AA+CA} (SkipPace only on chips that also allow BAC; a BAC-only chip gets a CardAccess ADDED; a downgraded CardAccess whose suite the chip does not run, so that the reader falls back to BAC), offline also with a verifier given the same / another AA challenge; " +
			"in both blocks the DataGroupHash entries of the security object are listed in ascending, descending or shuffled order (a withheld DG14/DG15 listed after a higher number); " +
			"oracle: trusted only if PA ok and completeness ok; chip-authenticity X only if X ok and PA ok (and CardSecurity authenticated for PACE-CAM); clones never authentic; stripped/downgraded never trusted; non-trivial = every judged session; distinct = the session tuple / the hostile scenario",
		MinEvaluations: 77760,
		Exhaustive:     func(string) bool { return false },
		Assumptions: []string{
			"only the 'only when' direction is asserted; for a genuine chip behind a downgraded CardAccess or with a withheld file only 'not trusted' is asserted",
			"part A is exhaustive over the exported Session fields (reported in coverage.observed.partA_sessions); part B is sampled",
			"the reader configuration and the order of the hash list are workload dimensions only: the oracle is the same implication for every configuration (whether SkipPace really skipped PACE is counted, not judged)",
		},
		Run: runC02,
	})
}

func c02Result3[T any](state int, mk func(ok bool) *T) *T {
	switch state {
	case 0:
		return nil
	case 1:
		return mk(false)
	}
	return mk(true)
}

func c02Judge(k *fw.K, d *document.DocumentEx, desc func() string) bool {
	s := &d.Session
	paOK := s.PassiveAuthResult != nil && s.PassiveAuthResult.Success
	cardSec := s.PassiveAuthResult != nil && s.PassiveAuthResult.CardSec != nil
	sum := d.Summary()
	if sum.DataTrusted && !(paOK && s.DocumentVerifyErr == nil) {
		k.Violation("trust:data-trusted-without-pa-or-completeness", "DataTrusted although passive authentication did not succeed or the completeness check failed: "+desc(), nil)
		return false
	}
	for _, st := range []document.ChipAuthStatus{sum.ChipAuthenticity, s.VerifiedChipAuthStatus()} {
		var mechOKv bool
		var name string
		switch st {
		case document.CHIP_AUTH_STATUS_NONE:
			continue
		case document.CHIP_AUTH_STATUS_AA:
			mechOKv, name = s.ActiveAuthResult != nil && s.ActiveAuthResult.Success, "AA"
		case document.CHIP_AUTH_STATUS_CA:
			mechOKv, name = s.ChipAuthResult != nil && s.ChipAuthResult.Success, "CA"
		case document.CHIP_AUTH_STATUS_PACE_CAM:
			mechOKv, name = s.PaceCamResult != nil && s.PaceCamResult.Success, "PACE-CAM"
		default:
			k.Violation("trust:unknown-chip-auth-status", fmt.Sprintf("unknown status %v: %s", st, desc()), nil)
			return false
		}
		if !mechOKv {
			k.Violation("trust:authenticity-without-protocol-success:"+name, "chip authenticity names "+name+" although that protocol did not succeed: "+desc(), nil)
			return false
		}
		if !paOK {
			k.Violation("trust:authenticity-without-pa:"+name, "chip authenticity names "+name+" although passive authentication did not succeed: "+desc(), nil)
			return false
		}
		if name == "PACE-CAM" && !cardSec {
			k.Violation("trust:cam-without-cardsecurity-authentication", "chip authenticity names PACE-CAM although the card security object was not authenticated: "+desc(), nil)
			return false
		}
	}
	return true
}

func c02PartA(k *fw.K, block int) {
	// block selects (pa, aa): 5*3 = 15 blocks; inside: cam, ca, verifyErr, 5 errs, bac, pace
	pa, aa := block/3, block%3
	e := errors.New("step error")
	n := 0
	for cam := 0; cam < 3; cam++ {
		for ca := 0; ca < 3; ca++ {
			for ve := 0; ve < 2; ve++ {
				for errs := 0; errs < 32; errs++ {
					for bac := 0; bac < 3; bac++ {
						for pace := 0; pace < 3; pace++ {
							var d document.DocumentEx
							s := &d.Session
							switch pa {
							case 1:
								s.PassiveAuthResult = &document.PassiveAuthResult{Success: false}
							case 2:
								s.PassiveAuthResult = &document.PassiveAuthResult{Success: false, Sod: &document.PassiveAuth{}, CardSec: &document.PassiveAuth{}}
							case 3:
								s.PassiveAuthResult = &document.PassiveAuthResult{Success: true, Sod: &document.PassiveAuth{}}
							case 4:
								s.PassiveAuthResult = &document.PassiveAuthResult{Success: true, Sod: &document.PassiveAuth{}, CardSec: &document.PassiveAuth{}}
							}
							s.ActiveAuthResult = c02Result3(aa, func(ok bool) *document.ActiveAuthResult { return &document.ActiveAuthResult{Success: ok} })
							s.PaceCamResult = c02Result3(cam, func(ok bool) *document.PaceCamResult { return &document.PaceCamResult{Success: ok} })
							s.ChipAuthResult = c02Result3(ca, func(ok bool) *document.ChipAuthResult { return &document.ChipAuthResult{Success: ok} })
							s.BacResult = c02Result3(bac, func(ok bool) *document.BacResult { return &document.BacResult{Success: ok} })
							s.PaceResult = c02Result3(pace, func(ok bool) *document.PaceResult { return &document.PaceResult{Success: ok} })
							if ve == 1 {
								s.DocumentVerifyErr = e
							}
							if errs&1 != 0 {
								s.BacErr = e
							}
							if errs&2 != 0 {
								s.PaceErr = e
							}
							if errs&4 != 0 {
								s.ChipAuthErr = e
							}
							if errs&8 != 0 {
								s.ActiveAuthErr = e
							}
							if errs&16 != 0 {
								s.PassiveAuthErr = e
							}
							n++
							desc := func() string {
								return fmt.Sprintf("pa=%d aa=%d cam=%d ca=%d verifyErr=%d errs=%05b bac=%d pace=%d", pa, aa, cam, ca, ve, errs, bac, pace)
							}
							if !c02Judge(k, &d, desc) {
								return
							}
							sum := d.Summary()
							if sum.DataTrusted {
								k.Count("partA_trusted")
							}
							if sum.ChipAuthenticity != document.CHIP_AUTH_STATUS_NONE {
								k.Count("partA_chip_authentic")
							}
						}
					}
				}
			}
		}
	}
	k.AddEvals(int64(n - 1))
	k.CountN("partA_sessions", int64(n))
	k.Nontrivial(fmt.Sprintf("partA|%d", block))
	// distinct: every tuple is distinct by construction
	for i := 1; i < n; i++ {
		k.Distinct(fmt.Sprintf("partA|%d|%d", block, i))
	}
}

// c02Walk drives ONE DocumentEx through a sequence of session states, asking for the summary
// after every change (a UI polling the summary while steps complete, a verifier that runs
// passive authentication and the completeness check one after the other, a second passive
// authentication against another trust store): every answer is judged against the state
// the session has at that moment.
func c02Walk(k *fw.K, i int) {
	r := k.RNG
	e := errors.New("step error")
	var d document.DocumentEx
	s := &d.Session
	steps := 40 + r.IntN(80)
	trustedSeen, flips := 0, 0
	prevTrusted := false
	for st := 0; st < steps; st++ {
		// change one to three step outcomes; favour reaching a trusted, chip-authentic state first
		nchg := 1 + r.IntN(3)
		if st == 0 {
			s.PassiveAuthResult = &document.PassiveAuthResult{Success: true, Sod: &document.PassiveAuth{}, CardSec: &document.PassiveAuth{}}
			s.ActiveAuthResult = &document.ActiveAuthResult{Success: true}
			nchg = 0
		}
		for c := 0; c < nchg; c++ {
			switch r.IntN(8) {
			case 0:
				switch r.IntN(5) {
				case 0:
					s.PassiveAuthResult = nil
				case 1:
					s.PassiveAuthResult = &document.PassiveAuthResult{Success: false}
				case 2:
					s.PassiveAuthResult = &document.PassiveAuthResult{Success: false, Sod: &document.PassiveAuth{}, CardSec: &document.PassiveAuth{}}
				case 3:
					s.PassiveAuthResult = &document.PassiveAuthResult{Success: true, Sod: &document.PassiveAuth{}}
				case 4:
					s.PassiveAuthResult = &document.PassiveAuthResult{Success: true, Sod: &document.PassiveAuth{}, CardSec: &document.PassiveAuth{}}
				}
			case 1:
				if s.PassiveAuthResult != nil { // the same result object updated in place
					s.PassiveAuthResult.Success = !s.PassiveAuthResult.Success
				}
			case 2:
				s.ActiveAuthResult = c02Result3(r.IntN(3), func(ok bool) *document.ActiveAuthResult { return &document.ActiveAuthResult{Success: ok} })
			case 3:
				s.PaceCamResult = c02Result3(r.IntN(3), func(ok bool) *document.PaceCamResult { return &document.PaceCamResult{Success: ok} })
			case 4:
				s.ChipAuthResult = c02Result3(r.IntN(3), func(ok bool) *document.ChipAuthResult { return &document.ChipAuthResult{Success: ok} })
			case 5:
				if s.DocumentVerifyErr == nil {
					s.DocumentVerifyErr = e
				} else {
					s.DocumentVerifyErr = nil
				}
			case 6:
				if s.PassiveAuthResult != nil && s.PassiveAuthResult.CardSec != nil {
					s.PassiveAuthResult.CardSec = nil
				} else if s.PassiveAuthResult != nil {
					s.PassiveAuthResult.CardSec = &document.PassiveAuth{}
				}
			case 7:
				s.PassiveAuthErr, s.ActiveAuthErr, s.ChipAuthErr = nil, nil, nil
				if r.IntN(2) == 0 {
					s.PassiveAuthErr = e
				}
				if r.IntN(2) == 0 {
					s.ActiveAuthErr = e
				}
			}
		}
		desc := func() string {
			return fmt.Sprintf("walk %d step %d of one DocumentEx: pa=%+v verifyErr=%v aa=%+v cam=%+v ca=%+v", i, st, s.PassiveAuthResult, s.DocumentVerifyErr, s.ActiveAuthResult, s.PaceCamResult, s.ChipAuthResult)
		}
		if !c02Judge(k, &d, desc) {
			return
		}
		t := d.Summary().DataTrusted
		if t {
			trustedSeen++
		}
		if st > 0 && t != prevTrusted {
			flips++
		}
		prevTrusted = t
	}
	k.AddEvals(int64(steps - 1))
	k.CountN("walk_steps", int64(steps))
	k.CountN("walk_steps_trusted", int64(trustedSeen))
	k.CountN("walk_trust_verdict_changes", int64(flips))
	k.Nontrivial(fmt.Sprintf("walk|%d|%d|%d", i, steps, flips))
}

var c02Scenarios = []string{"clone-no-keys", "clone-own-keys", "strip-dg14", "strip-dg15", "strip-both", "downgrade-cardaccess", "downgrade-cardaccess-extra-info", "untrusted-issuer", "genuine"}

// reader configurations of part B: the switches a caller of reader.Reader / NfcSession has
var c02Configs = []string{"default", "skip-pace", "skip-images", "aa-challenge", "max-read-small", "max-read-extended", "all-switches"}

// access-control kinds of part B: perso.Access plus a PACE-CAM chip that also allows BAC
var c02AccKinds = []string{"BAC", "PACE-GM+BAC", "PACE-GM", "PACE-CAM", "PACE-CAM+BAC"}

// chip authentication mechanisms of part B
var c02Mechs = []string{"AA-RSA", "AA-ECDSA", "CA", "none", "AA-RSA+CA", "AA-ECDSA+CA"}

// c02BCase is one end-to-end read of part B: hostile scenario x chip x reader configuration x
// order of the DataGroupHash entries in the security object.
type c02BCase struct {
	block   string // "partB" (scenario x chip rotation) or "partBcfg" (scenario x configuration product)
	sc      string
	accKind int // index into c02AccKinds
	mech    int // index into c02Mechs
	cfg     int // index into c02Configs
	order   perso.SODOrder
	moreDGs int // 0: DG2, DG11; 1: plus DG16; 2: plus a drawn subset of {7, 12, 13, 16}
}

func (cs c02BCase) String() string {
	return fmt.Sprintf("%s|%s|mech=%s|cfg=%s|sod-order=%v", cs.sc, c02AccKinds[cs.accKind], c02Mechs[cs.mech], c02Configs[cs.cfg], cs.order)
}

func (cs c02BCase) hasAA() bool   { return cs.mech == 0 || cs.mech == 1 || cs.mech >= 4 }
func (cs c02BCase) hasCA() bool   { return cs.mech == 2 || cs.mech >= 4 }
func (cs c02BCase) hasPACE() bool { return cs.accKind != 0 }
func (cs c02BCase) hasBAC() bool  { return cs.accKind == 0 || cs.accKind == 1 || cs.accKind == 4 }
func (cs c02BCase) isCAM() bool   { return cs.accKind >= 3 }
func (cs c02BCase) skipPace() bool {
	return c02Configs[cs.cfg] == "skip-pace" || c02Configs[cs.cfg] == "all-switches"
}

// c02Applicable says whether the chip of a case gives the scenario and the configuration
// something to bite on (the file to strip exists, the reader can open the chip at all, there
// is a mechanism a clone could try to pass, ...).
func c02Applicable(cs c02BCase) bool {
	if cs.skipPace() && !cs.hasBAC() {
		return false // with PACE switched off only BAC can open the chip
	}
	if c02Configs[cs.cfg] == "aa-challenge" && !cs.hasAA() {
		return false
	}
	switch cs.sc {
	case "clone-no-keys", "clone-own-keys":
		return cs.mech != 3 || (cs.isCAM() && !cs.skipPace())
	case "strip-dg14":
		return cs.hasPACE() || cs.hasCA()
	case "strip-dg15":
		return cs.hasAA()
	case "strip-both":
		return (cs.hasPACE() || cs.hasCA()) && cs.hasAA()
	case "downgrade-cardaccess":
		// a BAC-only chip has no CardAccess to downgrade: there the hostile chip ADDS one (DG14
		// must exist, otherwise the library has nothing to compare it with)
		return cs.hasPACE() || cs.hasCA()
	case "downgrade-cardaccess-extra-info":
		return cs.hasPACE()
	}
	return true
}

// c02CfgPlan is the case list of the scenario x configuration product: for every pair the
// applicable chips (access kind x mechanism) are put in a seed-determined order and one is
// taken per round; the order of the hash list rotates with the round.
func c02CfgPlan(c *fw.Ctx, rounds int) []c02BCase {
	prng := c.PlanRNG("c02-partB-configurations")
	var out []c02BCase
	perm := map[[2]int][]c02BCase{}
	for si, sc := range c02Scenarios {
		for cfg := range c02Configs {
			var app []c02BCase
			for a := range c02AccKinds {
				for m := range c02Mechs {
					cs := c02BCase{block: "partBcfg", sc: sc, accKind: a, mech: m, cfg: cfg, moreDGs: 2}
					if c02Applicable(cs) {
						app = append(app, cs)
					}
				}
			}
			if len(app) == 0 {
				fw.Bug("C02: no applicable chip for %s x %s", sc, c02Configs[cfg])
			}
			prng.Shuffle(len(app), func(i, j int) { app[i], app[j] = app[j], app[i] })
			perm[[2]int{si, cfg}] = app
		}
	}
	for round := 0; round < rounds; round++ {
		for cfg := range c02Configs {
			for si := range c02Scenarios {
				app := perm[[2]int{si, cfg}]
				cs := app[round%len(app)]
				cs.order = perso.SODOrder((round + si + cfg) % 3)
				out = append(out, cs)
			}
		}
	}
	return out
}

// c02RotationCase is the case list of the older block: scenario x {BAC, PACE-GM, PACE-CAM} x
// {AA-RSA, AA-ECDSA, CA, none} under the default configuration; every further pass over that
// product uses the next order of the hash list.
func c02RotationCase(i int) c02BCase {
	ns := len(c02Scenarios)
	cs := c02BCase{block: "partB", sc: c02Scenarios[i%ns], accKind: []int{0, 2, 3}[(i/ns)%3], mech: (i / ns / 3) % 4}
	cs.order = perso.SODOrder((i / ns / 12) % 3)
	if cs.order != perso.SODAscending {
		cs.moreDGs = 1
	}
	return cs
}

func c02PartB(k *fw.K, i int, cs c02BCase) {
	r := k.RNG
	sc, mech := cs.sc, cs.mech
	acc := []perso.Access{perso.BACOnly, perso.PACEGMWithBAC, perso.PACEGMOnly, perso.PACECAM, perso.PACECAM}[cs.accKind]
	pre := cs.block + "_"
	o := perso.Opts{Access: acc, ParamID: 8 + r.IntN(11), Suite: symref.AllSuites[1+r.IntN(3)], DGs: []int{2, 11}}
	if cs.hasAA() {
		if mech == 0 || mech == 4 {
			o.AA = perso.AAOpts{Kind: 1, Bits: 1024, Hash: chipsim.AAHash(r.IntN(5))}
		} else {
			o.AA = perso.AAOpts{Kind: 2, Curve: r.IntN(11)}
		}
	}
	if cs.hasCA() {
		o.CA = perso.CAOpts{On: true, Curve: r.IntN(11), Suite: symref.AllSuites[r.IntN(4)], Form: r.IntN(3), Arrange: r.IntN(3)}
	}
	switch cs.moreDGs {
	case 1:
		o.DGs = append(o.DGs, 16)
	case 2:
		for _, n := range []int{7, 12, 13, 16} {
			if r.IntN(2) == 0 {
				o.DGs = append(o.DGs, n)
			}
		}
	}
	o.SODOrder = cs.order
	if cs.order == perso.SODShuffled {
		o.SODOrderSeed = r.Uint64()
	}
	o.PKI.CertHash = 2
	o.Digest = 2
	if sc == "untrusted-issuer" {
		o.Untrusted = true
	}
	p := perso.Build(r, o)
	card := p.NewCard(uint64(i) + 1)
	desc := cs.String()
	clone := false
	stripped := []int{}
	switch sc {
	case "clone-no-keys":
		clone = true
		card.AA = nil
		if card.CA != nil {
			for j := range card.CA.Keys {
				card.CA.Keys[j].Priv = nil
			}
			card.CA.FakeSecret = func(key *chipsim.CAKey, pk ecref.Point) []byte { return randBytes(r, key.Curve.ByteLen) }
		}
		if card.PACE != nil && card.PACE.CAMPriv != nil {
			card.PACE.CAMPriv = new(big.Int).SetBytes(randBytes(r, 20)) // not the certified key
		}
		if mech == 3 && !cs.isCAM() {
			// nothing to clone without any chip authentication mechanism
			k.Count(pre + "clone_without_mechanism_skipped")
			return
		}
	case "clone-own-keys":
		clone = true
		o2 := o
		o2.MRZ = &p.MRZ
		o2.Country = p.Opts.Country
		p2 := perso.Build(mrand.New(mrand.NewPCG(r.Uint64(), 5)), o2)
		for try := 0; try < 8 && (bytesEq(p2.DG15, p.DG15) && p.DG15 != nil); try++ {
			// the pre-generated RSA pool is small: make sure the clone really has another key
			p2 = perso.Build(mrand.New(mrand.NewPCG(r.Uint64(), 5)), o2)
		}
		if p.DG15 != nil && bytesEq(p2.DG15, p.DG15) {
			k.Count(pre + "clone_same_key_skipped")
			return
		}
		c2 := p2.NewCard(uint64(i) + 7)
		// genuine files except the key files, which are the clone's own
		for fid, b := range p.LDS {
			if fid == chipsim.FidDG(14) || fid == chipsim.FidDG(15) {
				continue
			}
			c2.LDS[fid] = b
		}
		if mech == 3 && !cs.isCAM() {
			k.Count(pre + "clone_without_mechanism_skipped")
			return
		}
		card = c2
	case "strip-dg14":
		if _, ok := card.LDS[chipsim.FidDG(14)]; !ok {
			k.Count(pre + "strip_not_applicable")
			return
		}
		delete(card.LDS, chipsim.FidDG(14))
		stripped = []int{14}
	case "strip-dg15":
		if _, ok := card.LDS[chipsim.FidDG(15)]; !ok {
			k.Count(pre + "strip_not_applicable")
			return
		}
		delete(card.LDS, chipsim.FidDG(15))
		stripped = []int{15}
	case "strip-both":
		_, ok1 := card.LDS[chipsim.FidDG(14)]
		_, ok2 := card.LDS[chipsim.FidDG(15)]
		if !ok1 && !ok2 {
			k.Count(pre + "strip_not_applicable")
			return
		}
		if ok1 {
			stripped = append(stripped, 14)
		}
		if ok2 {
			stripped = append(stripped, 15)
		}
		delete(card.LDS, chipsim.FidDG(14))
		delete(card.LDS, chipsim.FidDG(15))
	case "downgrade-cardaccess-extra-info":
		if acc == perso.BACOnly {
			k.Count(pre + "downgrade_not_applicable")
			return
		}
		// the genuine info stays first; one or two further infos that DG14 does not contain follow
		own := chipsim.PaceInfoDER(chipsim.PaceOIDArcs(map[bool]int{false: chipsim.PaceECDHGM, true: chipsim.PaceECDHCAM}[acc == perso.PACECAM], o.Suite), 2, o.ParamID)
		infos := [][]byte{own}
		ns := symref.AllSuites[(int(o.Suite)+1+r.IntN(3))%4]
		if ns == o.Suite {
			ns = symref.AllSuites[(int(o.Suite)+1)%4]
		}
		extra := chipsim.PaceInfoDER(chipsim.PaceOIDArcs(chipsim.PaceECDHGM, ns), 2, o.ParamID)
		infos = append(infos, extra)
		if r.IntN(2) == 0 {
			infos = append(infos, chipsim.PaceInfoDER(chipsim.PaceOIDArcs(chipsim.PaceECDHGM, o.Suite), 2, 8+(o.ParamID-8+3)%11))
		}
		card.MF[chipsim.FidCardAccess] = der.SetUnsorted(infos...)
		card.PACE.Supported = append(card.PACE.Supported, chipsim.PaceSupport{Mapping: chipsim.PaceECDHGM, Suite: ns, ParamID: o.ParamID}, chipsim.PaceSupport{Mapping: chipsim.PaceECDHGM, Suite: o.Suite, ParamID: 8 + (o.ParamID-8+3)%11})
	case "downgrade-cardaccess":
		if acc == perso.BACOnly {
			if _, ok := card.LDS[chipsim.FidDG(14)]; !ok {
				k.Count(pre + "downgrade_not_applicable")
				return
			}
			// a BAC-only chip (DG14 because of chip authentication): the hostile chip ADDS a
			// CardAccess advertising PACE, which DG14 does not contain; it cannot run PACE
			paceInfo := chipsim.PaceInfoDER(chipsim.PaceOIDArcs(chipsim.PaceECDHGM, o.Suite), 2, o.ParamID)
			// ... or a CardAccess WITHOUT any PACE info, holding a chip-authentication info (key
			// id 123) that DG14 does not contain either, or both
			foreign := issuer.ChipAuthInfo(int(symref.AES128), 123)
			switch (i*7 + i/9 + i/27 + i/81) % 3 {
			case 0:
				card.MF[chipsim.FidCardAccess] = der.SetUnsorted(paceInfo)
			case 1:
				card.MF[chipsim.FidCardAccess] = der.SetUnsorted(foreign)
				k.Count(pre + "cardaccess_added_without_any_pace_info")
			default:
				card.MF[chipsim.FidCardAccess] = der.SetUnsorted(foreign, paceInfo)
			}
			k.Count(pre + "cardaccess_added_to_bac_only_chip")
			break
		}
		// advertise (and run) another generic-mapping suite than the one DG14 lists
		ns := symref.TDES
		if o.Suite == symref.TDES || acc == perso.PACEGMOnly && r.IntN(2) == 0 {
			ns = symref.AllSuites[1+(int(o.Suite))%3]
			if ns == o.Suite {
				ns = symref.TDES
			}
		}
		card.MF[chipsim.FidCardAccess] = der.SetUnsorted(chipsim.PaceInfoDER(chipsim.PaceOIDArcs(chipsim.PaceECDHGM, ns), 2, o.ParamID))
		if cs.block != "partB" && cs.hasBAC() && i%2 == 1 {
			// the advertised suite is a lie: PACE fails and the reader falls back to BAC
			k.Count(pre + "downgrade_advertised_suite_not_run")
		} else {
			card.PACE.Supported = []chipsim.PaceSupport{{Mapping: chipsim.PaceECDHGM, Suite: ns, ParamID: o.ParamID}}
		}
	}
	if cs.accKind == 4 && card.BAC == nil {
		// a PACE-CAM chip that still allows BAC
		card.BAC = chipsim.NewBAC(p.MRZInfo, mrand.New(mrand.NewPCG(uint64(i)+1, 1)))
	}
	// --- reader configuration
	lo := liveOpts{maxLe: 256}
	cfg := c02Configs[cs.cfg]
	if cfg == "skip-pace" || cfg == "all-switches" {
		lo.skipPace = true
	}
	if cfg == "skip-images" || cfg == "all-switches" {
		lo.skipImages = true
	}
	if cfg == "aa-challenge" || cfg == "all-switches" {
		lo.aaChallenge = randBytes(r, 8)
	}
	if cfg == "max-read-extended" || cfg == "all-switches" {
		card.Extended = true
		lo.maxLe = []int{257, 1000, 4096, 32767, 65535, 65536}[r.IntN(6)]
	}
	if cfg == "max-read-small" {
		// not below what the responses of the chip's protocols need (PACE keys, AA signatures)
		need := 0
		if cs.hasPACE() {
			need = 160
		}
		if o.AA.Kind == 1 && o.AA.Bits/8 > need {
			need = o.AA.Bits / 8
		}
		if o.AA.Kind == 2 && 140 > need {
			need = 140
		}
		lo.maxLe = []int{40, 64, 100, 127, 128, 129, 160, 192, 223, 231, 255}[r.IntN(11)]
		if lo.maxLe < need {
			lo.maxLe = need
		}
	}
	// the order of the hash list: does a higher data group number precede a withheld file?
	for _, w := range stripped {
		for _, n := range p.SODDGs {
			if n == w {
				break
			}
			if n > w {
				k.Count(pre + "withheld_file_listed_after_a_higher_number")
				break
			}
		}
	}
	k.Nontrivial(desc + fmt.Sprintf("|%d", i))
	k.Count(pre + sc)
	if cs.block != "partB" {
		k.Count(pre + "cfg_" + cfg)
		k.Count(pre + "chip_" + c02AccKinds[cs.accKind])
	}
	k.Count(pre + "sod_order_" + cs.order.String())
	res := liveRead(p, card, lo, nil)
	det := map[string]any{"scenario": desc, "err": fmt.Sprint(res.err), "sod_order": fmt.Sprint(p.SODDGs), "max_read": lo.maxLe}
	if lo.skipPace {
		if card.BACDone && !card.PACEDone {
			k.Count(pre + "skip_pace_opened_with_bac")
		}
		if card.PACEDone {
			k.Count(pre + "skip_pace_but_pace_ran") // information only: not part of the statement
		}
	}
	judge := func(d *document.DocumentEx, where string) bool {
		if d == nil {
			return true
		}
		det["where"] = where
		if !c02Judge(k, d, func() string { return desc + " (" + where + ")" }) {
			return false
		}
		sum := d.Summary()
		det["summary"] = fmt.Sprintf("trusted=%v authenticity=%v", sum.DataTrusted, sum.ChipAuthenticity)
		kcfg := ""
		if cs.block != "partB" {
			kcfg = ":" + cfg
		}
		switch {
		case clone:
			if sum.ChipAuthenticity != document.CHIP_AUTH_STATUS_NONE {
				k.Violation("trust:clone-authentic:"+sc+":"+where+kcfg, fmt.Sprintf("a cloned chip (%s) is reported chip-authentic (%v)", sc, sum.ChipAuthenticity), det)
				return false
			}
			if sc == "clone-own-keys" && sum.DataTrusted {
				k.Violation("trust:clone-trusted:"+sc+":"+where+kcfg, "a clone with substituted key files is reported as trusted", det)
				return false
			}
		case sc == "strip-dg14" || sc == "strip-dg15" || sc == "strip-both" || sc == "downgrade-cardaccess" || sc == "downgrade-cardaccess-extra-info":
			if sum.DataTrusted {
				k.Violation("trust:incomplete-trusted:"+sc+":"+where+kcfg, fmt.Sprintf("data reported trusted although %s (reader configuration %s, hash list order %v)", sc, cfg, p.SODDGs), det)
				return false
			}
			if pa := d.Session.PassiveAuthResult; pa != nil && pa.Success {
				// passive authentication is fine: only the completeness check stands between
				// this chip and a trusted verdict
				k.Count(pre + "untrusted_by_completeness_check_alone_" + where)
				if cs.block != "partB" {
					k.Count(pre + "untrusted_by_completeness_check_alone_cfg_" + cfg)
				}
			}
		case sc == "untrusted-issuer":
			if sum.DataTrusted || sum.ChipAuthenticity != document.CHIP_AUTH_STATUS_NONE {
				k.Violation("trust:untrusted-issuer-accepted:"+where+kcfg, "verdict trusted / chip-authentic although the issuer is not in the trust store", det)
				return false
			}
		case sc == "genuine":
			if !sum.DataTrusted {
				k.Count(pre + "genuine_not_trusted_" + where)
			} else {
				k.Count(pre + "genuine_trusted_" + where)
				if cs.order != perso.SODAscending {
					k.Count(pre + "genuine_trusted_unsorted_hash_list_" + where)
				}
			}
		}
		return true
	}
	if !judge(res.docEx, "live") {
		return
	}
	if res.docEx != nil {
		blob, err := res.docEx.ToCbor()
		if err == nil {
			// offline: a plain verifier; with a caller-supplied AA challenge also a verifier that
			// was given the same challenge and one that was given another
			type offv struct {
				name string
				ch   []byte
			}
			vs := []offv{{"offline", nil}}
			if lo.aaChallenge != nil {
				other := append([]byte{}, lo.aaChallenge...)
				other[r.IntN(8)] ^= byte(1 << r.IntN(8))
				vs = append(vs, offv{"offline-same-challenge", lo.aaChallenge}, offv{"offline-other-challenge", other})
			}
			for _, v := range vs {
				ver := verifier.NewVerifier(trustPool(p.Trust))
				if v.ch != nil {
					if _, err := ver.WithAAChallenge(v.ch); err != nil {
						k.Count(pre + "offline_challenge_refused")
						continue
					}
				}
				off, verr := ver.Verify(blob)
				k.AddEvals(1)
				if verr == nil {
					if !judge(off, v.name) {
						return
					}
					k.Count(pre + "offline_judged")
				} else {
					k.Count(pre + "offline_rejected")
				}
			}
		}
	}
	k.Count(pre + "ok")
	if i < 2*len(c02Scenarios) {
		k.Sample(cs.block, det)
	}
}

func runC02(c *fw.Ctx) {
	c.Cases(15, func(i int) string { return fmt.Sprintf("partA|block=%d", i) }, func(i int, k *fw.K) { c02PartA(k, i) })
	nw := c.Pick(200, 60000)
	c.Cases(nw, func(i int) string { return fmt.Sprintf("walk|i=%d", i) }, func(i int, k *fw.K) { c02Walk(k, i) })
	n := c.Pick(240, 30000)
	c.Cases(n, func(i int) string { return fmt.Sprintf("partB|%s i=%d", c02Scenarios[i%len(c02Scenarios)], i) }, func(i int, k *fw.K) { c02PartB(k, i, c02RotationCase(i)) })
	plan := c02CfgPlan(c, c.Pick(4, 60))
	c.Cases(len(plan), func(i int) string { return fmt.Sprintf("partBcfg|%v i=%d", plan[i], i) }, func(i int, k *fw.K) { c02PartB(k, i, plan[i]) })
}
