package checks

import (
	crand "crypto/rand"
	"fmt"
	"math/big"
	mrand "math/rand/v2"

	"github.com/gmrtd/gmrtd/document"
	"github.com/gmrtd/gmrtd/iso7816"
	"github.com/gmrtd/gmrtd/pace"
	"github.com/gmrtd/gmrtd/password"

	"verifharness/chipsim"
	"verifharness/der"
	"verifharness/ecref"
	"verifharness/fw"
	"verifharness/issuer"
	"verifharness/mrzref"
	"verifharness/symref"
)

// C04 - PACE succeeds with every conforming chip and fails closed otherwise.

func init() {
	register(&fw.Spec{
		ID:    "C04",
		Level: "exploration",
		Rule: "positive case = one PACE run (pace.DoPACE) against the simulated chip over the grid parameter id 8..18 x {3DES, AES-128/192/256} x {generic mapping; chip authentication mapping for AES} x password kind (TD1, TD2, TD3, TD1 with extended document number, CAN) x session randomness, plus ground edge slices (shared x-coordinate with 1 or 2 leading zero octets, chip public X / Y with a leading zero octet); " +
			"negative case = one run with a wrong password or one altered chip message (nonce, mapping key, agreement key, token, encrypted chip authentication data); selection case = CardAccess with 2-4 PACE infos mixing supported and unsupported entries in every order; " +
			"non-trivial = every run; distinct = (suite, mapping, parameter id, password kind, deviation, session randomness)",
		MinEvaluations: 500,
		Assumptions: []string{
			"conforming chip = harness chip half written from ICAO 9303-11 4.4 (fixed-length shared secret and coordinates per TR-03111, PACEInfo version 2 with parameter id, 16-octet nonce)",
			"chip-side elliptic-curve arithmetic is the harness's own (ecref, self-tested: n*G=O on all 11 parameter sets, RFC 5639 a/b for brainpoolP256r1, crypto/elliptic agreement on NIST curves)",
			"terminal randomness is deterministic per case (crypto/rand.Reader replaced in the worker process)",
		},
		Run: runC04,
	})
}

type c04Cfg struct {
	paramID int
	suite   symref.Suite
	cam     bool
	pwKind  int // 0 TD1, 1 TD2, 2 TD3, 3 TD1 extended, 4 CAN
	grind   string
	dev     string
}

func (c c04Cfg) String() string {
	m := "GM"
	if c.cam {
		m = "CAM"
	}
	return fmt.Sprintf("param=%d suite=%v map=%s pw=%s grind=%s dev=%s", c.paramID, c.suite, m, c04PwNames[c.pwKind], c.grind, c.dev)
}

var c04PwNames = []string{"TD1", "TD2", "TD3", "TD1ext", "CAN"}

type c04World struct {
	card       *chipsim.Card
	nfc        *iso7816.NfcSession
	doc        *document.Document
	pw         *password.Password
	wrongPw    *password.Password
	cardAccess []byte
	curve      *ecref.Curve
	pwDesc     string
}

// c04Passwords builds the terminal password and the chip's f(pi) for one password kind.
func c04Passwords(k *fw.K, r *mrand.Rand, kind int) (pw, wrong *password.Password, ref byte, chipKey []byte, desc string) {
	if kind == 4 {
		can := fmt.Sprintf("%06d", r.IntN(1000000))
		can2 := fmt.Sprintf("%06d", (r.IntN(999999)+1+int(can[5]-'0'))%1000000)
		if can2 == can {
			can2 = "000001"
			if can == can2 {
				can2 = "000002"
			}
		}
		return password.NewPasswordCan(can), password.NewPasswordCan(can2), 2, []byte(can), "CAN " + can
	}
	layout := []string{mrzref.TD1, mrzref.TD2, mrzref.TD3, mrzref.TD1}[kind]
	docLen := 0
	if kind == 3 {
		docLen = 10 + r.IntN(13)
	} else {
		docLen = 1 + r.IntN(9)
	}
	zone, f := mrzref.Generate(r, layout, docLen)
	_, f2 := mrzref.Generate(r, layout, 0)
	var err error
	if r.IntN(2) == 0 {
		pw, err = password.NewPasswordMrz(zone)
	} else {
		pw, err = password.NewPasswordMrzi(f.DocumentNumber, f.DateOfBirth, f.DateOfExpiry)
	}
	if err != nil {
		k.Violation("pace:password-rejected:"+c04PwNames[kind], fmt.Sprintf("password constructor rejects generated MRZ data: %v", err), map[string]any{"zone": zone})
		return nil, nil, 0, nil, ""
	}
	wrong, err = password.NewPasswordMrzi(f2.DocumentNumber, f2.DateOfBirth, f2.DateOfExpiry)
	if err != nil || wrong.Password == pw.Password {
		wrong = password.NewPasswordCan("123456")
	}
	return pw, wrong, 1, chipsim.PasswordKeyMRZ(mrzref.Information(f)), "MRZ " + mrzref.Information(f)
}

func c04NewWorld(k *fw.K, cfg c04Cfg, extraInfos func(own []byte) [][]byte) *c04World {
	r := k.RNG
	w := &c04World{}
	w.curve = ecref.ByParamID(cfg.paramID)
	mapping := chipsim.PaceECDHGM
	if cfg.cam {
		mapping = chipsim.PaceECDHCAM
	}
	pw, wrong, ref, chipKey, desc := c04Passwords(k, r, cfg.pwKind)
	if pw == nil {
		return nil
	}
	w.pw, w.wrongPw, w.pwDesc = pw, wrong, desc
	w.card = chipsim.NewCard()
	w.card.AuthRequired = true
	ps := &chipsim.PACEState{Passwords: map[byte][]byte{ref: chipKey}, RNG: mrand.New(mrand.NewPCG(r.Uint64(), 17))}
	ps.Supported = []chipsim.PaceSupport{{Mapping: mapping, Suite: cfg.suite, ParamID: cfg.paramID}}
	w.card.PACE = ps
	own := chipsim.PaceInfoDER(chipsim.PaceOIDArcs(mapping, cfg.suite), 2, cfg.paramID)
	infos := [][]byte{own}
	if extraInfos != nil {
		infos = extraInfos(own)
	}
	w.cardAccess = der.SetUnsorted(infos...)
	w.card.MF[chipsim.FidCardAccess] = w.cardAccess
	w.card.LDS[chipsim.FidCOM] = []byte{0x60, 0x0A, 0x5F, 0x01, 0x04, 0x30, 0x31, 0x30, 0x37, 0x5C, 0x01, 0x61}
	if cfg.cam {
		// static chip authentication key and CardSecurity carrying its public key
		sk := new(big.Int).SetBytes(randBytes(r, w.curve.ByteLen+8))
		sk.Mod(sk, new(big.Int).Sub(w.curve.N, big.NewInt(2)))
		sk.Add(sk, big.NewInt(2))
		ps.CAMPriv = sk
		pk := w.curve.Mul(sk, w.curve.G())
		keyID := -1
		if r.IntN(2) == 0 {
			keyID = cfg.paramID
		}
		secInfos := der.Set(
			issuer.ChipAuthPublicKeyInfoStd(cfg.paramID, w.curve.Encode(pk), keyID),
			own,
		)
		cs := issuer.QuickSignedData(r, issuer.OIDSecurityObject, secInfos)
		w.card.MF[chipsim.FidCardSecurity] = cs
	}
	tr := &funcTransceiver{f: w.card.Transceive}
	w.nfc = iso7816.NewNfcSession(tr)
	w.doc = &document.Document{}
	ca, err := document.NewCardAccess(w.cardAccess)
	if err != nil || ca == nil {
		k.Violation("pace:cardaccess-rejected", fmt.Sprintf("NewCardAccess rejects a well-formed CardAccess: %v", err), map[string]any{"card_access": fmt.Sprintf("%x", w.cardAccess)})
		return nil
	}
	w.doc.Mf.CardAccess = ca
	return w
}

func (w *c04World) detail(cfg c04Cfg, err error) map[string]any {
	ps := w.card.PACE
	return map[string]any{"config": cfg.String(), "password": w.pwDesc, "card_access": fmt.Sprintf("%x", w.cardAccess), "err": fmt.Sprint(err),
		"chip_done": ps.Done, "chip_token_ok": ps.TokenOK, "chip_nonce": fmt.Sprintf("%x", ps.Nonce), "chip_shared_secret": fmt.Sprintf("%x", ps.K), "chip_ksenc": fmt.Sprintf("%x", ps.KSEnc),
		"shared_x_leading_zero_octets": ps.SharedXLeading, "grind_steps": ps.GrindSteps}
}

// after a successful PACE: protected SELECT AID + file read, counters in lockstep
func (w *c04World) protectedExchange() error {
	sel, err := w.nfc.SelectAid(chipsim.LDS1AID)
	if err != nil {
		return fmt.Errorf("protected SELECT AID: %w", err)
	}
	if !sel {
		return fmt.Errorf("protected SELECT AID: not selected")
	}
	data, err := w.nfc.ReadFile(chipsim.FidCOM)
	if err != nil {
		return fmt.Errorf("protected ReadFile: %w", err)
	}
	if !bytesEq(data, w.card.LDS[chipsim.FidCOM]) {
		return fmt.Errorf("protected ReadFile: wrong bytes")
	}
	if w.card.SM == nil || w.card.SMAborted != 0 {
		return fmt.Errorf("chip dropped the SM session")
	}
	if !bytesEq(w.nfc.SM().SSC(), w.card.SM.SSC) {
		return fmt.Errorf("counters differ: terminal %x chip %x", w.nfc.SM().SSC(), w.card.SM.SSC)
	}
	return nil
}

func c04Positive(k *fw.K, cfg c04Cfg) {
	w := c04NewWorld(k, cfg, nil)
	if w == nil {
		return
	}
	ps := w.card.PACE
	switch cfg.grind {
	case "shared-x-1":
		ps.GrindSharedX = 1
	case "shared-x-2":
		ps.GrindSharedX = 2
	case "chip-map-x":
		ps.GrindPKMapX = 1
	case "chip-dh-x":
		ps.GrindPKDHX = 1
	case "chip-dh-y":
		ps.GrindPKDHY = 1
	case "nonce-32":
		ps.NonceLen = 32
	case "nonce-24":
		if cfg.suite == symref.TDES {
			ps.NonceLen = 24
		} else {
			ps.NonceLen = 32
		}
	}
	k.Nontrivial(cfg.String() + "|" + w.pwDesc)
	res, cam, err := pace.NewPace(w.nfc, w.doc, w.pw).DoPACE()
	k.Count("positive_runs")
	if ps.NonceLen != 0 && ps.NonceLen != 16 {
		// other nonce lengths than the 128 bits of TR-03110 are informational only
		if err == nil && res != nil && res.Success {
			k.Count(fmt.Sprintf("informational_nonce_len_%d_ok", ps.NonceLen))
		} else {
			k.Count(fmt.Sprintf("informational_nonce_len_%d_failed", ps.NonceLen))
		}
		return
	}
	if ps.SharedXLeading > 0 {
		k.Count(fmt.Sprintf("positive_shared_x_leading_zero_octets_%d", min(ps.SharedXLeading, 2)))
	}
	cls := fmt.Sprintf("%v:%s", cfg.suite, map[bool]string{false: "GM", true: "CAM"}[cfg.cam])
	lz := ""
	if ps.SharedXLeading > 0 {
		lz = ":shared-x-leading-zero"
	}
	if err != nil || res == nil || !res.Success {
		phase := "before-token"
		if ps.K != nil {
			phase = "after-key-agreement"
		}
		k.Violation("pace:genuine-failed:"+phase+lz, fmt.Sprintf("PACE (%s, parameter id %d) with the correct password against the conforming chip failed: %v", cls, cfg.paramID, err), w.detail(cfg, err))
		return
	}
	if !ps.Done || !w.card.PACEDone {
		k.Violation("pace:success-without-chip-completion", "DoPACE reports success but the chip did not complete PACE", w.detail(cfg, err))
		return
	}
	sm := w.nfc.SM()
	if sm == nil {
		k.Violation("pace:no-sm-after-success", "DoPACE succeeded but no SM session is installed", w.detail(cfg, err))
		return
	}
	if !bytesEq(sm.KsEnc(), ps.KSEnc) {
		k.Violation("pace:ksenc-mismatch"+lz, fmt.Sprintf("terminal KSenc %x, chip KSenc %x", sm.KsEnc(), ps.KSEnc), w.detail(cfg, err))
		return
	}
	if !bytesEq(sm.SSC(), w.card.SM.SSC) {
		k.Violation("pace:ssc-mismatch", fmt.Sprintf("terminal SSC %x, chip SSC %x", sm.SSC(), w.card.SM.SSC), w.detail(cfg, err))
		return
	}
	if res.ParameterId != cfg.paramID {
		k.Violation("pace:result-parameter-id", fmt.Sprintf("result names parameter id %d, chip used %d", res.ParameterId, cfg.paramID), w.detail(cfg, err))
		return
	}
	if e := w.protectedExchange(); e != nil {
		k.Violation("pace:first-protected-exchange-failed"+lz, e.Error(), w.detail(cfg, e))
		return
	}
	if cfg.cam {
		if cam == nil || !cam.Success {
			k.Violation("pace:cam-genuine-not-successful", "PACE-CAM against the chip holding the CardSecurity key is not reported successful", w.detail(cfg, err))
			return
		}
		k.Count("positive_cam_ok")
	} else if cam != nil && cam.Success {
		k.Violation("pace:cam-reported-for-gm", "chip authentication mapping reported successful in a generic mapping run", w.detail(cfg, err))
		return
	}
	k.Count("positive_ok")
	if cfg.grind != "" {
		k.Count("positive_ok_grind_" + cfg.grind)
	}
	k.Sample("positive-"+cls, map[string]any{"config": cfg.String(), "password": w.pwDesc, "shared_secret": fmt.Sprintf("%x", ps.K)})
}

var c04DevsAll = []string{"wrong-password", "wrong-password-other-type", "nonce-bitflip", "nonce-short", "nonce-long",
	"mapkey-other-point", "mapkey-off-curve", "mapkey-infinity", "mapkey-echo", "mapkey-truncated", "mapkey-bitflip",
	"kakey-other-point", "kakey-off-curve", "kakey-infinity", "kakey-echo", "kakey-truncated", "kakey-bitflip",
	"token-bitflip", "token-swapped-roles", "token-truncated", "token-zero", "token-missing", "reflection-attack"}
var c04DevsCAM = []string{"ecad-bitflip", "ecad-bad-padding", "ecad-other-scalar", "ecad-negated-scalar", "ecad-doubled-scalar", "ecad-missing", "ecad-short"}

func c04ReplaceDO(resp []byte, tag byte, f func(val []byte) []byte) []byte {
	outer, err := chipsim.ParseDOs(resp)
	if err != nil || len(outer) != 1 {
		fw.Bug("chip response is not a single 7C object")
	}
	dos, err := chipsim.ParseDOs(outer[0].Val)
	if err != nil {
		fw.Bug("chip response DOs unparseable")
	}
	var body []byte
	for _, d := range dos {
		if d.Tag == tag {
			nv := f(append([]byte{}, d.Val...))
			if nv == nil {
				continue // drop the object
			}
			body = append(body, chipsim.TLV(tag, nv)...)
		} else {
			body = append(body, d.Raw...)
		}
	}
	return chipsim.TLV(0x7C, body)
}

func c04Negative(k *fw.K, cfg c04Cfg) {
	w := c04NewWorld(k, cfg, nil)
	if w == nil {
		return
	}
	r := k.RNG
	ps := w.card.PACE
	cv := w.curve
	pw := w.pw
	w.card.Hook = func(ev *chipsim.Event) []byte {
		if cfg.dev == "reflection-attack" && ev.Cmd != nil && ev.Cmd.INS == 0x86 && ev.Cmd.CLA&0x10 == 0 {
			// ... and the terminal's own token: T_IC = MAC(K, PK_IFD) equals T_IFD = MAC(K, PK_IC) when PK_IC = PK_IFD
			if dos, err := chipsim.ParseDOs(ev.Cmd.Data); err == nil && len(dos) == 1 {
				if in, err := chipsim.ParseDOs(dos[0].Val); err == nil && len(in) == 1 && in[0].Tag == 0x85 {
					return append(chipsim.TLV(0x7C, chipsim.TLV(0x86, in[0].Val)), 0x90, 0x00)
				}
			}
		}
		return nil
	}
	otherPoint := func() []byte {
		return cv.Encode(cv.Mul(new(big.Int).SetBytes(randBytes(r, cv.ByteLen-1)), cv.G()))
	}
	offCurve := func(v []byte) []byte {
		v[len(v)-1] ^= 1
		if _, err := cv.Decode(v); err == nil {
			v[len(v)-1] ^= 3
		}
		return v
	}
	pointDev := func(kind string) func([]byte) []byte {
		switch kind {
		case "other-point":
			return func(v []byte) []byte { return otherPoint() }
		case "off-curve":
			return offCurve
		case "infinity":
			return func(v []byte) []byte { return []byte{0x00} }
		case "echo":
			return func(v []byte) []byte { return append([]byte{}, ps.LastTerminalKey...) }
		case "truncated":
			return func(v []byte) []byte { return v[:len(v)-1] }
		case "bitflip":
			return func(v []byte) []byte { v[1+r.IntN(len(v)-1)] ^= 1 << uint(r.IntN(8)); return v }
		}
		fw.Bug("point deviation %q", kind)
		return nil
	}
	ps.Deviate = func(step int, resp []byte) []byte {
		switch cfg.dev {
		case "nonce-bitflip":
			if step == 1 {
				return c04ReplaceDO(resp, 0x80, func(v []byte) []byte { v[r.IntN(len(v))] ^= 1 << uint(r.IntN(8)); return v })
			}
		case "nonce-short":
			if step == 1 {
				return c04ReplaceDO(resp, 0x80, func(v []byte) []byte { return v[:len(v)-1] })
			}
		case "nonce-long":
			if step == 1 {
				return c04ReplaceDO(resp, 0x80, func(v []byte) []byte { return append(v, randBytes(r, cfg.suite.BlockSize())...) })
			}
		case "mapkey-other-point", "mapkey-off-curve", "mapkey-infinity", "mapkey-echo", "mapkey-truncated", "mapkey-bitflip":
			if step == 2 {
				return c04ReplaceDO(resp, 0x82, pointDev(cfg.dev[len("mapkey-"):]))
			}
		case "kakey-other-point", "kakey-off-curve", "kakey-infinity", "kakey-echo", "kakey-truncated", "kakey-bitflip":
			if step == 3 {
				return c04ReplaceDO(resp, 0x84, pointDev(cfg.dev[len("kakey-"):]))
			}
		case "reflection-attack":
			if step == 3 { // no password needed: send the terminal's own agreement key back ...
				return c04ReplaceDO(resp, 0x84, pointDev("echo"))
			}
		case "token-bitflip":
			if step == 4 {
				return c04ReplaceDO(resp, 0x86, func(v []byte) []byte { v[r.IntN(len(v))] ^= 1 << uint(r.IntN(8)); return v })
			}
		case "token-swapped-roles":
			if step == 4 { // the terminal's own token echoed back
				return c04ReplaceDO(resp, 0x86, func(v []byte) []byte {
					return chipsim.AuthToken(cfg.suite, ps.KSMac, chipsim.PaceOID(map[bool]int{false: chipsim.PaceECDHGM, true: chipsim.PaceECDHCAM}[cfg.cam], cfg.suite), lastChipDHKey(ps, cv))
				})
			}
		case "token-truncated":
			if step == 4 {
				return c04ReplaceDO(resp, 0x86, func(v []byte) []byte { return v[:7] })
			}
		case "token-zero":
			if step == 4 {
				return c04ReplaceDO(resp, 0x86, func(v []byte) []byte { return make([]byte, 8) })
			}
		case "token-missing":
			if step == 4 {
				return c04ReplaceDO(resp, 0x86, func(v []byte) []byte { return nil })
			}
		case "ecad-bitflip":
			if step == 4 {
				return c04ReplaceDO(resp, 0x8A, func(v []byte) []byte { v[r.IntN(len(v))] ^= 1 << uint(r.IntN(8)); return v })
			}
		case "ecad-bad-padding", "ecad-other-scalar", "ecad-negated-scalar", "ecad-doubled-scalar":
			if step == 4 {
				return c04ReplaceDO(resp, 0x8A, func(v []byte) []byte {
					blk := symref.Block(cfg.suite, ps.KSEnc)
					iv := make([]byte, 16)
					ff := make([]byte, 16)
					for i := range ff {
						ff[i] = 0xff
					}
					blk.Encrypt(iv, ff)
					var pt []byte
					if cfg.dev == "ecad-bad-padding" {
						pt = append(append([]byte{}, ps.CAIC...), make([]byte, 16-len(ps.CAIC)%16)...)
						if len(ps.CAIC)%16 == 0 {
							pt = append([]byte{}, ps.CAIC...)
						}
						if len(pt) == 0 {
							pt = make([]byte, 16)
						}
						pt[len(pt)-1] = 0x01
					} else {
						x := new(big.Int).SetBytes(ps.CAIC)
						switch cfg.dev {
						case "ecad-negated-scalar": // n - CA_IC: the inverse point, same x-coordinate
							x.Sub(cv.N, x)
						case "ecad-doubled-scalar":
							x.Lsh(x, 1)
						default:
							x.Add(x, big.NewInt(1))
						}
						x.Mod(x, cv.N)
						pt = symref.Pad2(x.FillBytes(make([]byte, len(ps.CAIC))), 16)
					}
					return symref.CBC(blk, iv, pt, true)
				})
			}
		case "ecad-missing":
			if step == 4 {
				return c04ReplaceDO(resp, 0x8A, func(v []byte) []byte { return nil })
			}
		case "ecad-short":
			if step == 4 {
				return c04ReplaceDO(resp, 0x8A, func(v []byte) []byte { return v[:len(v)-1] })
			}
		}
		return nil
	}
	if cfg.dev == "wrong-password" {
		pw = w.wrongPw
	}
	if cfg.dev == "wrong-password-other-type" {
		// a CAN where the chip was personalised for the MRZ and vice versa: the chip knows no
		// such password (or another one) - PACE must fail closed
		if cfg.pwKind == 4 {
			pw = w.wrongPw
			if p2, err := password.NewPasswordMrzi("AB1234567", "800101", "300101"); err == nil {
				pw = p2
			}
		} else {
			pw = password.NewPasswordCan(fmt.Sprintf("%06d", r.IntN(1000000)))
		}
	}
	k.Nontrivial(cfg.String() + "|" + w.pwDesc)
	k.Count("negative_" + cfg.dev)
	res, cam, err := pace.NewPace(w.nfc, w.doc, pw).DoPACE()
	isEcad := len(cfg.dev) > 4 && cfg.dev[:4] == "ecad"
	if isEcad {
		// only the chip-authentication-mapping verdict is judged
		if cam != nil && cam.Success {
			k.Violation("pace:cam-accepted:"+cfg.dev, fmt.Sprintf("PACE-CAM reported successful although the encrypted chip authentication data was altered (%s)", cfg.dev), w.detail(cfg, err))
			return
		}
		k.Count("negative_rejected")
		return
	}
	if err == nil && res != nil && res.Success {
		k.Violation("pace:hostile-accepted:"+cfg.dev, fmt.Sprintf("DoPACE reports success under deviation %s", cfg.dev), w.detail(cfg, err))
		return
	}
	if w.nfc.SM() != nil {
		k.Violation("pace:sm-installed-after-failure:"+cfg.dev, fmt.Sprintf("DoPACE failed under deviation %s but a secure-messaging session is installed", cfg.dev), w.detail(cfg, err))
		return
	}
	if cam != nil && cam.Success {
		k.Violation("pace:cam-success-after-failure:"+cfg.dev, "PACE failed but chip authentication mapping is reported successful", w.detail(cfg, err))
		return
	}
	k.Count("negative_rejected")
}

func lastChipDHKey(ps *chipsim.PACEState, cv *ecref.Curve) []byte {
	return ps.ChipDHPublic(cv)
}

// selection: several PACE infos in CardAccess
func c04Selection(k *fw.K, i int) {
	r := k.RNG
	cfg := c04Cfg{paramID: 8 + r.IntN(11), suite: symref.AllSuites[r.IntN(4)], pwKind: r.IntN(5)}
	if cfg.suite != symref.TDES && r.IntN(3) == 0 {
		cfg.cam = false
	}
	unsupported := func() []byte {
		switch r.IntN(5) {
		case 0: // integrated mapping, ECDH
			return chipsim.PaceInfoDER(chipsim.PaceOIDArcs(chipsim.PaceECDHIM, symref.AllSuites[r.IntN(4)]), 2, 8+r.IntN(11))
		case 1: // DH generic mapping with a MODP group
			return chipsim.PaceInfoDER(chipsim.PaceOIDArcs(chipsim.PaceDHGM, symref.AllSuites[r.IntN(4)]), 2, r.IntN(3))
		case 2: // DH integrated mapping
			return chipsim.PaceInfoDER(chipsim.PaceOIDArcs(chipsim.PaceDHIM, symref.AllSuites[r.IntN(4)]), 2, r.IntN(3))
		case 3: // unknown protocol under id-PACE
			return chipsim.PaceInfoDER([]int{0, 4, 0, 127, 0, 7, 2, 2, 4, 7 + r.IntN(5), 1 + r.IntN(4)}, 2, 8+r.IntN(11))
		default: // some other security info (unknown OID)
			return der.Seq(der.OID(1, 2, 840, 113549, 1, 9, 99, r.IntN(100)), der.Int64(1))
		}
	}
	nExtra := 1 + r.IntN(3)
	pos := r.IntN(nExtra + 1)
	w := c04NewWorld(k, cfg, func(own []byte) [][]byte {
		var infos [][]byte
		for j := 0; j <= nExtra; j++ {
			if j == pos {
				infos = append(infos, own)
			} else {
				infos = append(infos, unsupported())
			}
		}
		return infos
	})
	if w == nil {
		return
	}
	k.Nontrivial(fmt.Sprintf("sel|%x", w.cardAccess))
	k.Count("selection_runs")
	res, _, err := pace.NewPace(w.nfc, w.doc, w.pw).DoPACE()
	if err != nil || res == nil || !res.Success {
		lz := ""
		if w.card.PACE.SharedXLeading > 0 {
			lz = ":shared-x-leading-zero"
		}
		k.Violation("pace:selection-failed"+lz, fmt.Sprintf("PACE failed although CardAccess advertises a supported suite next to unsupported entries: %v", err), w.detail(cfg, err))
		return
	}
	if e := w.protectedExchange(); e != nil {
		k.Violation("pace:selection:first-protected-exchange-failed", e.Error(), w.detail(cfg, e))
		return
	}
	k.Count("selection_ok")
	k.Sample("selection", map[string]any{"card_access": fmt.Sprintf("%x", w.cardAccess), "selected_oid": res.Oid.String(), "parameter_id": res.ParameterId})
}

func runC04(c *fw.Ctx) {
	if err := symref.SelfTest(); err != nil {
		fw.Bug("symref self-test: %v", err)
	}
	if err := ecref.SelfTest(); err != nil {
		fw.Bug("ecref self-test: %v", err)
	}
	_ = crand.Reader
	// grid
	type suiteMap struct {
		s   symref.Suite
		cam bool
	}
	var grid []c04Cfg
	for id := 8; id <= 18; id++ {
		for _, s := range symref.AllSuites {
			grid = append(grid, c04Cfg{paramID: id, suite: s})
			if s != symref.TDES {
				grid = append(grid, c04Cfg{paramID: id, suite: s, cam: true})
			}
		}
	}
	// positive: every grid point x password kinds x sessions
	perPoint := c.Pick(1, 100)
	var pos []c04Cfg
	for gi, g := range grid {
		for pk := 0; pk < 5; pk++ {
			for s := 0; s < perPoint; s++ {
				cfg := g
				cfg.pwKind = pk
				// quick: rotate the password kinds over the grid instead of the full product
				if c.Quick() && (gi+pk)%5 >= 2 {
					continue
				}
				pos = append(pos, cfg)
			}
		}
		for _, gr := range []string{"shared-x-1", "chip-map-x", "chip-dh-x", "chip-dh-y"} {
			cfg := g
			cfg.pwKind = gi % 5
			cfg.grind = gr
			if c.Quick() && gr != "shared-x-1" && (gi%4 != 0) {
				continue
			}
			pos = append(pos, cfg)
		}
		if gi%11 == 0 {
			for _, nl := range []string{"nonce-32", "nonce-24"} {
				cfg := g
				cfg.pwKind = gi % 5
				cfg.grind = nl
				pos = append(pos, cfg)
			}
		}
		if c.Thorough() && gi%7 == 0 {
			cfg := g
			cfg.pwKind = gi % 5
			cfg.grind = "shared-x-2"
			pos = append(pos, cfg)
		}
	}
	c.Cases(len(pos), func(i int) string { return "positive|" + pos[i].String() + fmt.Sprintf(" #%d", i) }, func(i int, k *fw.K) { c04Positive(k, pos[i]) })

	// negative
	var neg []c04Cfg
	prng := c.PlanRNG("c04-neg")
	for gi, g := range grid {
		devs := c04DevsAll
		if g.cam {
			devs = append(append([]string{}, c04DevsAll...), c04DevsCAM...)
		}
		for di, d := range devs {
			if c.Quick() && (gi+di)%3 != 0 {
				continue
			}
			reps := c.Pick(1, 2)
			for rep := 0; rep < reps; rep++ {
				cfg := g
				cfg.dev = d
				cfg.pwKind = prng.IntN(5)
				neg = append(neg, cfg)
			}
		}
	}
	c.Cases(len(neg), func(i int) string { return "negative|" + neg[i].String() + fmt.Sprintf(" #%d", i) }, func(i int, k *fw.K) { c04Negative(k, neg[i]) })

	nsel := c.Pick(100, 20000)
	c.Cases(nsel, func(i int) string { return fmt.Sprintf("selection|i=%d", i) }, func(i int, k *fw.K) { c04Selection(k, i) })
}
