package checks

import (
	"bytes"
	"fmt"

	"github.com/gmrtd/gmrtd/iso7816"

	"verifharness/chipsim"
	"verifharness/fw"
)

// C17 - command and response APDUs follow ISO 7816-4 for every length.
// Oracle: chipsim.ParseCommand (strict, independent) must recover header, data and Ne
// from CApdu.Encode(), in the minimal form; ParseRApdu splits data||SW and re-encodes.

func init() {
	register(&fw.Spec{
		ID:    "C17",
		Level: "exploration",
		Rule: "case = one (header, Nc, Ne) triple encoded by iso7816.CApdu.Encode and parsed by the independent strict ISO 7816-4 parser, or one response byte string given to ParseRApdu; " +
			"thorough enumerates every Nc in 0..65535 against 7 boundary Ne values and every Ne in 0..65536 against 7 boundary Nc values; quick enumerates all boundaries +-2 and a stride through both ranges; " +
			"non-trivial = Nc>0 or Ne>0 (commands), length>=2 (responses); distinct = distinct (header class, Nc, Ne) or response (length, fill pattern)",
		MinEvaluations: 2000,
		Exhaustive:     func(t string) bool { return t == "thorough" },
		Assumptions: []string{
			"the harness's own ISO 7816-4 parser (chipsim/apdu.go, ~100 lines, written from the standard's table of the seven encodings) is the reference",
			"command data content is irrelevant to the length encoding beyond the byte patterns tried (random, all-00, all-FF, leading 00)",
		},
		Run: runC17,
	})
}

var c17NeSet = []int{0, 1, 255, 256, 257, 65535, 65536}
var c17NcSet = []int{0, 1, 255, 256, 65279, 65280, 65535}

func c17Check(k *fw.K, hdr [4]byte, nc, ne int, pattern int) {
	data := make([]byte, nc)
	switch pattern % 4 {
	case 0:
		for i := range data {
			data[i] = byte(k.RNG.Uint32())
		}
	case 1: // all zero (leading 00 could be confused with an extended marker)
	case 2:
		for i := range data {
			data[i] = 0xff
		}
	case 3:
		for i := range data {
			data[i] = byte(i)
		}
	}
	var in []byte
	if nc > 0 {
		in = data
	}
	apdu := iso7816.NewCApdu(hdr[0], hdr[1], hdr[2], hdr[3], in, ne)
	enc := apdu.Encode()
	k.AddEvals(1)
	if nc > 0 || ne > 0 {
		k.Distinct(fmt.Sprintf("c|%d|%d|%d", nc, ne, pattern%4))
	}
	exp := chipsim.ExpectedCase(nc, ne)
	k.Count("cmd_case_" + exp)
	if nc <= 3 || nc == 256 {
		k.Sample("cmd-case-"+exp, map[string]any{"header": fmt.Sprintf("%x", hdr), "nc": nc, "ne": ne, "encoded": fmt.Sprintf("%x", enc[:min(len(enc), 16)])})
	}
	detail := func() map[string]any {
		e := enc
		if len(e) > 24 {
			e = append(append([]byte{}, enc[:12]...), enc[len(enc)-8:]...)
		}
		return map[string]any{"header": fmt.Sprintf("%x", hdr), "nc": nc, "ne": ne, "encoded_len": len(enc), "encoded_head_tail": fmt.Sprintf("%x", e), "expected_case": exp}
	}
	// the one specific wrong shape that capdu_test.go pins: case 2E (no data, Ne > 256)
	// encoded as header || Le on two bytes, without the leading 00 of the extended form
	if exp == "2E" && len(enc) == 6 && int(enc[4])<<8|int(enc[5]) == ne&0xffff {
		k.Violation("capdu:case2E:le2-no-lead00", fmt.Sprintf("Nc=0 Ne=%d encoded as header||Le(2 bytes) without the leading 00 of the extended form", ne), detail())
		return
	}
	cmd, err := chipsim.ParseCommand(enc)
	if err != nil {
		key := "capdu:parse-fail:case" + exp
		k.Violation(key, fmt.Sprintf("strict ISO 7816-4 parser rejects the encoding of Nc=%d Ne=%d: %v", nc, ne, err), detail())
		return
	}
	if cmd.CLA != hdr[0] || cmd.INS != hdr[1] || cmd.P1 != hdr[2] || cmd.P2 != hdr[3] {
		k.Violation("capdu:mismatch:header", fmt.Sprintf("header not recovered for Nc=%d Ne=%d", nc, ne), detail())
		return
	}
	if len(cmd.Data) != nc || !bytes.Equal(cmd.Data, data) {
		k.Violation("capdu:mismatch:data:case"+exp, fmt.Sprintf("data not recovered for Nc=%d Ne=%d: parser sees Nc=%d", nc, ne, len(cmd.Data)), detail())
		return
	}
	if cmd.Ne != ne {
		k.Violation("capdu:mismatch:ne:case"+exp, fmt.Sprintf("expected length not recovered for Nc=%d Ne=%d: parser sees Ne=%d", nc, ne, cmd.Ne), detail())
		return
	}
	if cmd.Case != exp {
		k.Violation("capdu:form:case"+exp, fmt.Sprintf("Nc=%d Ne=%d encoded as case %s, minimal form is case %s", nc, ne, cmd.Case, exp), detail())
		return
	}
	// encoded zero rule
	if ne == 256 && !cmd.Extended && enc[len(enc)-1] != 0 {
		k.Violation("capdu:zero-rule:256", "Ne=256 not encoded as 00", detail())
	}
	if ne == 65536 && (enc[len(enc)-1] != 0 || enc[len(enc)-2] != 0) {
		k.Violation("capdu:zero-rule:65536", "Ne=65536 not encoded as 0000", detail())
	}
	if ext := apdu.IsExtended(); ext != cmd.Extended {
		k.Violation("capdu:isextended", fmt.Sprintf("IsExtended()=%v but encoding is extended=%v", ext, cmd.Extended), detail())
	}
	// the encoding handed out belongs to the caller (a driver may set channel bits in it or
	// wipe it after sending): encoding the same command again still gives the ISO encoding
	if nc <= 600 || pattern%4 == 1 {
		keep := append([]byte{}, enc...)
		for i := range enc {
			enc[i] ^= 0xA5
		}
		again := apdu.Encode()
		k.Count("cmd_encoded_again_after_caller_overwrote_first_result")
		if !bytes.Equal(again, keep) {
			enc = keep
			k.Violation("capdu:second-encode-differs-after-caller-overwrote-result", fmt.Sprintf("Nc=%d Ne=%d: Encode() twice on one command, the caller overwrote the first result in between: the second result is not the encoding any more", nc, ne), detail())
			return
		}
		enc = keep
	}
}

func runC17(c *fw.Ctx) {
	prng := c.PlanRNG("c17-headers")
	headers := [][4]byte{{0x00, 0xB0, 0x00, 0x00}, {0x0C, 0xA4, 0x02, 0x0C}, {0xFF, 0xFF, 0xFF, 0xFF}, {0x10, 0x86, 0x00, 0x00}}
	for i := 0; i < 4; i++ {
		headers = append(headers, [4]byte{byte(prng.Uint32()), byte(prng.Uint32()), byte(prng.Uint32()), byte(prng.Uint32())})
	}

	// --- commands: Nc sweep x Ne boundary set
	var ncList, neList []int
	if c.Thorough() {
		for nc := 0; nc <= 65535; nc++ {
			ncList = append(ncList, nc)
		}
		for ne := 0; ne <= 65536; ne++ {
			neList = append(neList, ne)
		}
	} else {
		seen := map[int]bool{}
		add := func(l *[]int, v, max int) {
			if v >= 0 && v <= max && !seen[v] {
				seen[v] = true
				*l = append(*l, v)
			}
		}
		bounds := []int{0, 1, 127, 128, 255, 256, 257, 511, 512, 4095, 4096, 32767, 32768, 65023, 65024, 65279, 65280, 65281, 65534, 65535, 65536}
		for _, b := range bounds {
			for d := -2; d <= 2; d++ {
				add(&ncList, b+d, 65535)
			}
		}
		for v := 0; v <= 65535; v += 251 {
			add(&ncList, v, 65535)
		}
		seen = map[int]bool{}
		for _, b := range bounds {
			for d := -2; d <= 2; d++ {
				add(&neList, b+d, 65536)
			}
		}
		for v := 0; v <= 65536; v += 251 {
			add(&neList, v, 65536)
		}
	}
	c.Cases(len(ncList), func(i int) string { return fmt.Sprintf("cmd-nc|nc=%d x Ne-set", ncList[i]) }, func(i int, k *fw.K) {
		nc := ncList[i]
		for j, ne := range c17NeSet {
			c17Check(k, headers[(i+j)%len(headers)], nc, ne, i+j)
		}
		k.Nontrivial("")
	})
	c.Cases(len(neList), func(i int) string { return fmt.Sprintf("cmd-ne|ne=%d x Nc-set", neList[i]) }, func(i int, k *fw.K) {
		ne := neList[i]
		for j, nc := range c17NcSet {
			c17Check(k, headers[(i+j)%len(headers)], nc, ne, i+j)
		}
		k.Nontrivial("")
	})

	// --- responses
	nresp := c.Pick(4000, 60000)
	c.Cases(nresp, func(i int) string { return fmt.Sprintf("rsp|i=%d", i) }, func(i int, k *fw.K) {
		var n int
		switch {
		case i < 4*301:
			n = i / 4
		default:
			n = int(k.RNG.Uint32() % 70000)
			if i%3 == 0 {
				n = int(k.RNG.Uint32() % 600)
			}
		}
		b := make([]byte, n)
		pat := i % 4
		switch pat {
		case 0:
			for j := range b {
				b[j] = byte(k.RNG.Uint32())
			}
		case 1:
		case 2:
			for j := range b {
				b[j] = 0xff
			}
		case 3:
			for j := range b {
				b[j] = byte(k.RNG.Uint32())
			}
			if n >= 2 {
				sws := []uint16{0x9000, 0x6A82, 0x6283, 0x6700, 0x6CFF, 0x6100, 0x0000, 0xFFFF}
				sw := sws[int(k.RNG.Uint32())%len(sws)]
				b[n-2], b[n-1] = byte(sw>>8), byte(sw)
			}
		}
		orig := append([]byte{}, b...)
		r, err := iso7816.ParseRApdu(b)
		det := map[string]any{"len": n, "pattern": pat, "tail": fmt.Sprintf("%x", orig[max(0, n-6):])}
		if n < 2 {
			k.Count("rsp_short")
			if err == nil {
				k.Violation("rapdu:short-accepted", fmt.Sprintf("response of %d bytes accepted", n), det)
			}
			return
		}
		k.Nontrivial(fmt.Sprintf("r|%d|%d", n, pat))
		k.Count("rsp_parsed")
		if n < 8 {
			k.Sample("rsp", map[string]any{"bytes": fmt.Sprintf("%x", orig)})
		}
		if err != nil {
			k.Violation("rapdu:rejected", fmt.Sprintf("response of %d bytes rejected: %v", n, err), det)
			return
		}
		if !bytes.Equal(orig, b) {
			k.Violation("rapdu:input-modified", "ParseRApdu modified its input", det)
		}
		if !bytes.Equal(r.Data, orig[:n-2]) || r.Status != uint16(orig[n-2])<<8|uint16(orig[n-1]) {
			k.Violation("rapdu:split", "data/status split differs from data||SW1SW2", det)
			return
		}
		if !bytes.Equal(r.Encode(), orig) {
			k.Violation("rapdu:reencode", "RApdu.Encode() does not reproduce the response", det)
		}
		if e1 := r.Encode(); len(e1) > 0 {
			for i := range e1 {
				e1[i] ^= 0x5A
			}
			if !bytes.Equal(r.Encode(), orig) {
				k.Violation("rapdu:second-encode-differs-after-caller-overwrote-result", "RApdu.Encode() twice, the caller overwrote the first result in between: the second result is not the response any more", det)
			}
		}
		// aliasing: changing the input afterwards must not change the parsed value
		if n > 2 {
			b[0] ^= 0xff
			if r.Data[0] != orig[0] {
				k.Violation("rapdu:aliasing", "parsed data aliases the input buffer", det)
			}
		}
		if n == 2 && r.IsSuccess() != (r.Status == 0x9000) {
			k.Violation("rapdu:issuccess", "IsSuccess disagrees with status", det)
		}
	})
}
