package checks

import (
	"fmt"
	"hash/fnv"
	mrand "math/rand/v2"

	"github.com/gmrtd/gmrtd/cms"
	"github.com/gmrtd/gmrtd/document"
	"github.com/gmrtd/gmrtd/iso7816"
	"github.com/gmrtd/gmrtd/password"
	"github.com/gmrtd/gmrtd/reader"

	"verifharness/chipsim"
	"verifharness/ecref"
	"verifharness/fw"
	"verifharness/issuer"
	"verifharness/ldsgen"
	"verifharness/perso"
	"verifharness/symref"
)

// shared helpers for monitors that read a whole simulated chip through reader.ReadDocument

type liveOpts struct {
	maxLe       int
	skipPace    bool
	skipImages  bool
	aaChallenge []byte
	wrongPw     bool
	afterSetup  func() // optional: runs after the reader is configured, before ReadDocument
}

func trustPool(certs [][]byte) *cms.GenericCertPool {
	pool := &cms.GenericCertPool{}
	for _, c := range certs {
		if err := pool.Add(c); err != nil {
			fw.LibFail("trust-store-rejects-certificate", "GenericCertPool.Add rejects a well-formed certificate: %v", err)
		}
	}
	return pool
}

func passwordFor(p *perso.Perso) (*password.Password, error) {
	if p.Opts.CAN {
		return password.NewPasswordCan(p.CANStr), nil
	}
	return password.NewPasswordMrz(p.Zone)
}

type liveResult struct {
	docEx *document.DocumentEx
	log   *iso7816.ApduLog
	err   error
	nfc   *iso7816.NfcSession
	tr    *funcTransceiver
}

// liveRead reads the card with reader.ReadDocument. wrap may interpose on the link.
func liveRead(p *perso.Perso, card *chipsim.Card, lo liveOpts, wrap func(next func([]byte) []byte) func([]byte) []byte) liveResult {
	f := card.Transceive
	if wrap != nil {
		f = wrap(card.Transceive)
	}
	tr := &funcTransceiver{f: f}
	nfc := iso7816.NewNfcSession(tr)
	if lo.maxLe > 0 {
		nfc.SetMaxLe(lo.maxLe)
	}
	rd := reader.NewReader(nil, nfc, trustPool(p.Trust))
	if lo.skipPace {
		rd.SkipPace()
	}
	if lo.skipImages {
		rd.SkipImages()
	}
	if lo.aaChallenge != nil {
		if _, err := rd.WithAAChallenge(lo.aaChallenge); err != nil {
			return liveResult{err: fmt.Errorf("WithAAChallenge: %w", err)}
		}
	}
	if lo.afterSetup != nil {
		lo.afterSetup()
	}
	pw, err := passwordFor(p)
	if err != nil {
		return liveResult{err: fmt.Errorf("password: %w", err)}
	}
	if lo.wrongPw {
		pw = password.NewPasswordCan("000000")
		if !p.Opts.CAN {
			pw, _ = password.NewPasswordMrzi("X0000000", "010101", "300101")
		}
	}
	docEx, log, err := rd.ReadDocument(pw, []byte{0x3B, 0x80}, nil)
	return liveResult{docEx: docEx, log: log, err: err, nfc: nfc, tr: tr}
}

// fileOf returns the raw bytes the library holds for a file name, nil when absent.
func docFile(d *document.Document, name string) []byte {
	l := &d.Mf.Lds1
	switch name {
	case "CardAccess":
		if d.Mf.CardAccess != nil {
			return d.Mf.CardAccess.RawData
		}
	case "CardSecurity":
		if d.Mf.CardSecurity != nil {
			return d.Mf.CardSecurity.RawData
		}
	case "DIR":
		if d.Mf.Dir != nil {
			return d.Mf.Dir.RawData
		}
	case "SOD":
		if l.Sod != nil {
			return l.Sod.RawData
		}
	case "COM":
		if l.Com != nil {
			return l.Com.RawData
		}
	case "DG1":
		if l.Dg1 != nil {
			return l.Dg1.RawData
		}
	case "DG2":
		if l.Dg2 != nil {
			return l.Dg2.RawData
		}
	case "DG7":
		if l.Dg7 != nil {
			return l.Dg7.RawData
		}
	case "DG11":
		if l.Dg11 != nil {
			return l.Dg11.RawData
		}
	case "DG12":
		if l.Dg12 != nil {
			return l.Dg12.RawData
		}
	case "DG13":
		if l.Dg13 != nil {
			return l.Dg13.RawData
		}
	case "DG14":
		if l.Dg14 != nil {
			return l.Dg14.RawData
		}
	case "DG15":
		if l.Dg15 != nil {
			return l.Dg15.RawData
		}
	case "DG16":
		if l.Dg16 != nil {
			return l.Dg16.RawData
		}
	}
	return nil
}

var supportedDGs = []int{1, 2, 7, 11, 12, 13, 14, 15, 16}

// chipFile returns the chip's bytes for a file name.
func chipFile(p *perso.Perso, name string) []byte {
	switch name {
	case "CardAccess":
		return p.MF[chipsim.FidCardAccess]
	case "CardSecurity":
		return p.MF[chipsim.FidCardSecurity]
	case "DIR":
		return p.LDS[chipsim.FidDIR]
	case "SOD":
		return p.LDS[chipsim.FidSOD]
	case "COM":
		return p.LDS[chipsim.FidCOM]
	}
	var n int
	fmt.Sscanf(name, "DG%d", &n)
	return p.DGFiles[n]
}

// randPerso draws a personalisation over the C08 configuration space.
type persoPlan struct {
	o        perso.Opts
	maxLe    int
	chipCap  int
	leCap    int
	extended bool
	shortRnd bool
	skipImg  bool
}

func (pp persoPlan) String() string {
	o := pp.o
	return fmt.Sprintf("access=%v param=%d suite=%v can=%v layout=%v dgs=%v unsup=%v dg2=%d aa=%+v ca=%+v untrusted=%v digest=%v extra-access-infos=%d@%d sod-order=%v | maxLe=%d cap=%d lecap=%d ext=%v short=%v skipimg=%v",
		o.Access, o.ParamID, o.Suite, o.CAN, o.Layout, o.DGs, o.Unsupported, o.DG2Size, o.AA, o.CA, o.Untrusted, o.Digest, len(o.ExtraAccessInfos), o.OwnInfoPos, o.SODOrder, pp.maxLe, pp.chipCap, pp.leCap, pp.extended, pp.shortRnd, pp.skipImg)
}

var planDG2Sizes = []int{0, 0, 300, 380, 381, 382, 383, 384, 385, 508, 509, 510, 511, 512, 513, 1000, 4096, 16000, 32767, 32768, 32769, 40000, 65535, 65539}

func randPlan(r *mrand.Rand, big bool) persoPlan {
	var pp persoPlan
	o := &pp.o
	o.Access = perso.Access(r.IntN(4))
	o.ParamID = 8 + r.IntN(11)
	o.Suite = symref.AllSuites[r.IntN(4)]
	if o.Access == perso.PACECAM && o.Suite == symref.TDES {
		o.Suite = symref.AllSuites[1+r.IntN(3)]
	}
	o.CAN = o.Access != perso.BACOnly && r.IntN(3) == 0
	o.Layout = []ldsgen.Layout{ldsgen.TD1, ldsgen.TD2, ldsgen.TD3}[r.IntN(3)]
	o.ExtDoc = r.IntN(4) == 0
	for _, n := range []int{2, 7, 11, 12, 13, 16} {
		if r.IntN(2) == 0 {
			o.DGs = append(o.DGs, n)
		}
	}
	if r.IntN(4) == 0 {
		o.Unsupported = []int{3}
		if r.IntN(2) == 0 {
			o.Unsupported = []int{3, 4, 5}
		}
	}
	o.Digest = issuer.AllHashes[r.IntN(5)]
	o.EFDIR = r.IntN(5) == 0
	if o.Access != perso.BACOnly && r.IntN(4) == 0 {
		// EF.CardAccess advertises further suites / infos the reader does not implement
		for j := 1 + r.IntN(2); j > 0; j-- {
			o.ExtraAccessInfos = append(o.ExtraAccessInfos, perso.UnsupportedAccessInfo(r))
		}
		o.OwnInfoPos = r.IntN(len(o.ExtraAccessInfos) + 1)
	}
	o.SODBySKI = r.IntN(2) == 0
	o.LDSv1 = r.IntN(2) == 0
	o.Untrusted = r.IntN(4) == 0
	// issuer keys: keep the cheap ones frequent
	switch r.IntN(6) {
	case 0:
		o.PKI.CSCAKey, o.PKI.DSKey = issuer.RSAKeyOf(2048, r.IntN(6)), issuer.RSAKeyOf(2048, r.IntN(6))
		o.PKI.DSPSS = r.IntN(2) == 0
	case 1:
		c := ecref.All()[r.IntN(11)]
		o.PKI.CSCAKey, o.PKI.DSKey = issuer.NewECKey(r, c), issuer.NewECKey(r, c)
		o.PKI.DSKey.Explicit = r.IntN(2) == 0
	}
	o.PKI.CertHash = issuer.SHA256
	if o.Digest == issuer.SHA1 && o.PKI.DSKey != nil && o.PKI.DSKey.EC != nil {
		// fine: ECDSA with SHA-1 is in the supported profile list
	}
	// chip authentication
	switch r.IntN(4) {
	case 0:
		o.AA = perso.AAOpts{Kind: 1, Bits: []int{1024, 1536, 2048}[r.IntN(3)], Hash: chipsim.AAHash(r.IntN(5))}
	case 1:
		o.AA = perso.AAOpts{Kind: 2, Curve: r.IntN(11), DER: r.IntN(4) == 0}
	}
	if r.IntN(2) == 0 {
		o.CA = perso.CAOpts{On: true, Curve: r.IntN(11), Suite: symref.AllSuites[r.IntN(4)], Form: r.IntN(3), Arrange: r.IntN(4)}
		if o.CA.Arrange == 3 {
			o.CA.Suite = symref.TDES
		}
	}
	// transport
	pp.extended = r.IntN(2) == 0
	needLe := 0
	if o.Access != perso.BACOnly {
		needLe = 160
	}
	if o.AA.Kind == 1 && o.AA.Bits/8 > needLe {
		needLe = o.AA.Bits / 8
	}
	if o.AA.Kind == 2 && 140 > needLe {
		needLe = 140
	}
	if pp.extended {
		pp.maxLe = []int{256, 257, 1000, 4096, 32767, 32768, 65535, 65536}[r.IntN(8)]
	} else {
		pp.maxLe = []int{64, 100, 127, 128, 129, 192, 223, 231, 255, 256}[r.IntN(10)]
		if r.IntN(6) == 0 {
			pp.maxLe = 1 + r.IntN(40)
		}
	}
	if pp.maxLe < needLe {
		pp.maxLe = 256
	}
	if pp.maxLe < 12 {
		// the reader gives up after 1000 reads per file: a security object of a few KiB
		// (RSA-4096 signer certificate) is out of reach of a smaller per-read size, which is
		// then not a transport that supports the file (C08's condition); the tiny sizes 1..8
		// have their own directed cases on a small chip
		pp.maxLe = 12
	}
	switch r.IntN(6) {
	case 0:
		pp.chipCap = []int{16, 50, 100, 223, 231, 255, 256, 1024}[r.IntN(8)]
	case 1:
		pp.shortRnd = true
	case 2:
		pp.leCap = []int{128, 192, 200, 231, 255}[r.IntN(5)]
		if pp.leCap < needLe {
			pp.leCap = 0
		}
	}
	// DG2 size
	hasDG2 := false
	for _, n := range o.DGs {
		if n == 2 {
			hasDG2 = true
		}
	}
	if hasDG2 {
		o.DG2Size = planDG2Sizes[r.IntN(len(planDG2Sizes))]
		if !big && o.DG2Size > 4096 {
			o.DG2Size = 300 + r.IntN(3000)
		}
		// a file beyond offset 32767 can only be read when one extended read covers the rest
		if o.DG2Size >= 32768 {
			pp.extended, pp.maxLe, pp.chipCap, pp.shortRnd, pp.leCap = true, 65536, 0, false, 0
		}
		// keep the number of chunks below the reader's limit
		step := pp.maxLe
		if pp.chipCap > 0 && pp.chipCap < step {
			step = pp.chipCap
		}
		if pp.leCap > 0 && pp.leCap < step {
			step = 128
		}
		if pp.shortRnd {
			step = 1
		}
		if o.DG2Size/step > 600 {
			o.DG2Size = 300 + r.IntN(200)
		}
	}
	pp.skipImg = r.IntN(6) == 0
	// order of the DataGroupHash entries in the security object (a SEQUENCE OF: no ordering
	// rule): 1/4 descending, 1/4 shuffled. Derived from the plan drawn so far instead of from r,
	// so that the personalisation that follows sees the same PRNG stream as without this
	// dimension (same files, same sizes; only the order of the list and its signature differ).
	h := fnv.New64a()
	h.Write([]byte(pp.String()))
	switch v := h.Sum64(); v % 4 {
	case 0:
		o.SODOrder = perso.SODDescending
	case 1:
		o.SODOrder, o.SODOrderSeed = perso.SODShuffled, v>>2
	}
	return pp
}
