package checks

import (
	"encoding/hex"
	"fmt"
	"io"
	"log/slog"
	"math"
	mrand "math/rand/v2"
	"regexp"
	"runtime"
	"runtime/debug"
	"runtime/metrics"
	"sort"
	"strings"
	"sync/atomic"
	"syscall"
	"time"
	"unsafe"

	"verifharness/fw"
)

// C12 - untrusted bytes never crash, hang or exhaust the process.
//
// One ENTRY is one public function of the library that consumes bytes from a chip, a file or
// a serialised document (see c12_entries.go for the table). Every case description starts
// with `entry=<name>|`; one case is one call (directed adversarial inputs that may kill the
// process) or a bundle of up to 50 calls of one input family (volume).
//
// Oracles (an error return and an acceptance are both always fine):
//
//	panic:<pkg.func>                      the library panicked; <pkg.func> is the innermost library
//	                                      frame of the panic (same format as the framework's key);
//	                                      panic:reader.ReadDocument:escaped:<pkg.func> when a panic
//	                                      leaves reader.ReadDocument (which promises to recover)
//	crash:entry=<name> / hang:entry=...   the worker process died / exceeded HangSeconds in a case
//	                                      of that entry and did so again when the case ran alone
//	                                      (raised by the framework's parent)
//	alloc:<site>                          runtime.MemStats.TotalAlloc grew by more than
//	                                      A + 512*len(input) during ONE call, A = max(64 MiB,
//	                                      4 x the largest growth any genuine seed caused at that
//	                                      entry in this worker), AND on an immediate repeat the heap
//	                                      held more than that bound at some moment; <site> is the
//	                                      innermost library function of the largest allocation site
//	                                      of that repeat (heap profile). alloc:<entry>:<family> when
//	                                      the site is not in the library. Counters
//	                                      "alloc_violations <entry> <family>" give the breakdown.
//	cpu:<entry>:<family>                  thread CPU time of one call above max(10 s + 10 ns*n^2,
//	                                      20 x slowest genuine seed) x current machine slowdown, and
//	                                      again on an immediate repeat
//	cpu:<entry>:growth:<scale>            doubling family: exponent > 2.5 over both of the last two
//	                                      doublings and > 1 s at the largest, and again on a repeat
//
// Reading decisions are listed in the Assumptions of the spec.

const (
	c12AllocFloor    = 64 << 20
	c12AllocPerByte  = 512
	c12CPUFloor      = 10 * time.Second
	c12CPUQuadNs     = 10              // ns per octet^2
	c12GenuineX      = 20              // CPU margin over the slowest genuine input
	c12ViolCap       = 4               // violations per key and worker process; the rest is only counted
	c12MaxInput      = 64 << 10        // longest input of the volume families (doubling probes go to 1 MiB)
	c12CaseCPUBudget = 6 * time.Second // a bundle stops early (coverage only) beyond this
)

func init() {
	register(&fw.Spec{
		ID:    "C12",
		Level: "exploration",
		Rule: "case = one call, or a bundle of <= 50 calls of one input family, of one public entry point that consumes untrusted bytes " +
			"(tlv.Decode/DecodeEncode/Unwrap/UnwrapTag/ParseTags + String/Encode, ParseRApdu, SecureMessaging.Decode, every document.New* constructor, Document.NewDG, DecodeSecurityInfos, SecurityInfos.Contains, ISO 19794-5 / 39794-5 records, " +
			"cms.ParseSignedData+Verify, ParseCertificates(+Certificate.Verify), GenericCertPool.Add, CreateCertPoolFromSignedData, VerifySignature, SubjectPublicKeyInfo accessors, MRZ decoding and passwords, " +
			"ValidateActiveAuthSignature, the three VerifyEvidence, the three CBOR imports, verifier.Verify, mobile.Verifier.Verify, and reader.ReadDocument against a simulated chip with mutated files / responses); " +
			"on accepted objects also json.Marshal / Summary / ToCbor / htmlreport.Generate. " +
			"families: random octets (log-uniform length <= 64 KiB), byte and tree mutations of genuine seeds (harness-generated files, security objects, certificates, master list, CBOR exports, evidence), " +
			"length lies (17 MiB 4-octet and 16 MiB 3-octet claims, indefinite, non-minimal, +-1, zero), malformed OIDs, integer extremes, tag swaps, element deletion/duplication, splices, " +
			"directed: 256 MiB claims on the outermost and an inner element, 4 GiB length fields (alone in their case, at tlv.Decode, tlv.Unwrap, NewSOD, NewDG1, NewDG11, NewDG13, verifier.Verify and a chip file for the reader), indefinite marker on every element, nesting 49/50/51/52/1000/100000, 9999/10000/10001/100000 elements, CBOR lying lengths and nesting, odd-length / non-ASCII MRZ, evidence with absent document parts, empty / 1 KiB+1 / 1 MiB fields, " +
			"over-long counters, one-sided key ids, RSA keys with huge moduli/exponents; doubling families per entry (sizes n0..1 MiB). 10% of the cases run with slog at Debug into a discarding handler. " +
			"non-trivial = every call; distinct = (entry, family, input hash)",
		CrashIsViolation: true,
		HangSeconds:      90,
		MemLimitMB:       3072,
		MinEvaluations:   100000,
		Assumptions: []string{
			"an error return and an acceptance are both fine for every input; only a panic, process death, runaway allocation or runaway CPU time is a violation",
			"allocation is screened by runtime.MemStats.TotalAlloc growth of the single-threaded call (cumulative bytes allocated), bound A + 512 x input length, A = max(64 MiB, 4 x the largest growth of a genuine seed at that entry in the same worker, measured warm); because the cumulative count also contains the garbage of long big-number computations, a verdict additionally needs an immediate repeat (collector at GOGC 2, heap sampled every ~50 us) during which the heap HELD more than the bound at some moment; overshoots that are only cumulative are counted, not flagged",
			"volume inputs are clamped so that no octet pair reads as a 4-octet BER length of 32 MiB or more: with a reader that allocates the claimed length first (H8) every such mutant would kill or stall the worker; the larger claims are directed families",
			"per worker process the first two allocation overshoots of an entry (24 overall) get the confirming repeat and the allocation-site analysis; the key of an allocation finding is alloc:<innermost library function of the largest allocation site> (alloc:<entry>:<family> when that site is outside the library), the (entry, family) breakdown is in the counters alloc_violations / alloc_bound_exceeded_not_analysed",
			"time is thread CPU time (CLOCK_THREAD_CPUTIME_ID, worker goroutine locked to its thread), bound max(10 s + 10 ns x n^2, 20 x slowest genuine seed) scaled by how much slower a fixed reference workload runs at that moment than at worker start, and needs a confirming repeat; a bound missed only on the first run is counted, not flagged",
			"'small polynomial' is read as at most quadratic with some slack: growth is flagged only when both of the last two doublings of a family show an exponent above 2.5, together with more than 1 s at the largest size, and the same on a repeat of all three sizes; volume inputs are capped at 64 KiB so that legitimately quadratic work (RSA with a 64 KiB modulus) stays far below the 60 s watchdog",
			"a panic that reader.ReadDocument recovers and returns as an error is an error, not a violation; panics are attributed to the innermost library frame on the stack",
			"the worker runs with traceback level 'crash' and a zero core limit so that a Go fatal error (out of memory under RLIMIT_AS 3 GiB, stack exhaustion) ends the process with SIGABRT and is attributed by the parent; the 4 GiB length claims run alone in their case",
			"for entry points that take several values (VerifySignature, CreateCertPoolFromSignedData, Contains, ValidateActiveAuthSignature, NewPasswordMrzi, the VerifyEvidence functions) one value at a time is mutated and the input length is the sum of all values",
			"evidence and documents for VerifyEvidence are built through the public structs and constructors; a nil *Document is a caller error and not generated",
		},
		Run: runC12,
	})
}

// ---------------------------------------------------------------------------------------
// meter

func c12CPU() time.Duration {
	var ts syscall.Timespec
	const clockThreadCPUTimeID = 3
	if _, _, e := syscall.Syscall(syscall.SYS_CLOCK_GETTIME, clockThreadCPUTimeID, uintptr(unsafe.Pointer(&ts)), 0); e != 0 {
		var ru syscall.Rusage
		const rusageThread = 1
		if err := syscall.Getrusage(rusageThread, &ru); err != nil {
			fw.Bug("no per-thread CPU clock: %v / %v", e, err)
		}
		return time.Duration(ru.Utime.Nano() + ru.Stime.Nano())
	}
	return time.Duration(ts.Nano())
}

var c12MS runtime.MemStats

// c12Ballast keeps the collector's trigger away from the tiny live heap of a fresh worker.
var c12Ballast []byte

func c12Alloc() uint64 {
	runtime.ReadMemStats(&c12MS)
	return c12MS.TotalAlloc
}

type c12Meas struct {
	alloc    uint64
	cpu      time.Duration
	accepted bool
	panicked bool
	panicVal string
	stack    string
}

var c12FrameRe = regexp.MustCompile(`github\.com/gmrtd/gmrtd/([A-Za-z0-9_/]+)\.((?:\(\*?[A-Za-z0-9_]+\)\.)?[A-Za-z0-9_]+)`)

func c12TopLibFrame(st string) string {
	m := c12FrameRe.FindStringSubmatch(st)
	if m == nil {
		return ""
	}
	return m[1] + "." + m[2]
}

// c12Measure runs fn once and meters it. A panic whose stack has no library frame is a
// harness bug and is re-raised.
func c12Measure(fn func() bool) (m c12Meas) {
	a0 := c12Alloc()
	t0 := c12CPU()
	func() {
		defer func() {
			if r := recover(); r != nil {
				st := string(debug.Stack())
				// the harness's own frames of this closure are on the stack as well; the library
				// frame decides
				if c12TopLibFrame(st) == "" {
					panic(r)
				}
				if fmt.Sprintf("%T", r) == "fw.harnessBug" {
					panic(r)
				}
				m.panicked, m.panicVal, m.stack = true, fmt.Sprint(r), st
			}
		}()
		m.accepted = fn()
	}()
	m.cpu = c12CPU() - t0
	a1 := c12Alloc()
	m.alloc = a1 - a0
	return m
}

// c12AllocSite runs `run` (which executes the call under test once) between two heap
// profile snapshots and returns the innermost library function of the allocation site that
// allocated most in between ("outside-library" when that site has no library frame).
func c12AllocSite(run func()) string {
	snap := func() map[[32]uintptr]int64 {
		runtime.GC()
		runtime.GC()
		n, _ := runtime.MemProfile(nil, true)
		recs := make([]runtime.MemProfileRecord, n+256)
		n, ok := runtime.MemProfile(recs, true)
		if !ok {
			return nil
		}
		m := map[[32]uintptr]int64{}
		for _, r := range recs[:n] {
			m[r.Stack0] += r.AllocBytes
		}
		return m
	}
	before := snap()
	run()
	after := snap()
	if before == nil || after == nil {
		return ""
	}
	type site struct {
		st [32]uintptr
		d  int64
	}
	var sites []site
	for st, v := range after {
		if d := v - before[st]; d > 0 {
			sites = append(sites, site{st, d})
		}
	}
	sort.Slice(sites, func(i, j int) bool { return sites[i].d > sites[j].d })
	for _, s := range sites {
		n := 0
		for n < len(s.st) && s.st[n] != 0 {
			n++
		}
		frames := runtime.CallersFrames(s.st[:n])
		for {
			f, more := frames.Next()
			if strings.Contains(f.Function, "github.com/gmrtd/gmrtd/") {
				if m := c12FrameRe.FindStringSubmatch(f.Function); m != nil {
					return m[1] + "." + m[2]
				}
			}
			if !more {
				break
			}
		}
		break // only the largest site decides
	}
	return "outside-library"
}

const c12HeapObjects = "/memory/classes/heap/objects:bytes"

// c12PeakLive repeats fn with an aggressive collector (GOGC 2) and samples the bytes held by
// heap objects every ~50 us from a second goroutine; it returns the largest growth over the
// starting value. Garbage churn of long computations (big-number arithmetic) stays small
// here, whereas a single oversized make() or a retained structure shows in full.
func c12PeakLive(fn func() bool) uint64 {
	runtime.GC()
	old := debug.SetGCPercent(2)
	defer debug.SetGCPercent(old)
	s := []metrics.Sample{{Name: c12HeapObjects}}
	metrics.Read(s)
	if s[0].Value.Kind() != metrics.KindUint64 {
		fw.Bug("runtime metric %s unavailable", c12HeapObjects)
	}
	start := s[0].Value.Uint64()
	var peak atomic.Uint64
	stop, done := make(chan struct{}), make(chan struct{})
	go func() {
		defer close(done)
		t := []metrics.Sample{{Name: c12HeapObjects}}
		for {
			select {
			case <-stop:
				return
			default:
			}
			metrics.Read(t)
			if v := t[0].Value.Uint64(); v > peak.Load() {
				peak.Store(v)
			}
			time.Sleep(50 * time.Microsecond)
		}
	}()
	func() {
		defer func() { recover() }()
		fn()
	}()
	metrics.Read(s)
	end := s[0].Value.Uint64()
	close(stop)
	<-done
	p := peak.Load()
	if end > p {
		p = end
	}
	if p < start {
		return 0
	}
	return p - start
}

// ---------------------------------------------------------------------------------------
// per-entry baselines and verdicts

type c12Base struct {
	alloc uint64
	cpu   time.Duration
	n     int
}

func (w *c12World) allocBound(entry string, n int) uint64 {
	a := uint64(c12AllocFloor)
	if b := w.base[entry]; b != nil && 4*b.alloc > a {
		a = 4 * b.alloc
	}
	return a + uint64(c12AllocPerByte)*uint64(n)
}

func (w *c12World) cpuBound(entry string, n int) time.Duration {
	q := float64(n) * float64(n) * c12CPUQuadNs
	if q > 1e13 {
		q = 1e13
	}
	d := c12CPUFloor + time.Duration(q)
	if b := w.base[entry]; b != nil && c12GenuineX*b.cpu > d {
		d = c12GenuineX * b.cpu
	}
	return d
}

func c12Hex(b []byte) string {
	if len(b) <= 160 {
		return hex.EncodeToString(b)
	}
	return hex.EncodeToString(b[:96]) + "..." + hex.EncodeToString(b[len(b)-32:])
}

func (w *c12World) viol(k *fw.K, key, what string, detail map[string]any) {
	w.violSeen[key]++
	if w.violSeen[key] > c12ViolCap {
		k.Count("violations_beyond_cap " + key)
		return
	}
	k.Violation(key, what, detail)
}

// exec meters one call and applies the oracles. n is the input length in octets, show a
// printable form of the input (hex) for the report.
func (w *c12World) exec(k *fw.K, entry, family string, n int, show func() string, fn func() bool) c12Meas {
	m := c12Measure(fn)
	k.AddEvals(1)
	w.caseCPU += m.cpu
	k.Count("calls " + entry)
	det := func(extra map[string]any) map[string]any {
		d := map[string]any{"entry": entry, "family": family, "input_len": n, "input": show(), "alloc_bytes": m.alloc, "cpu_ms": m.cpu.Milliseconds(), "debug_logging": w.debugOn}
		for a, b := range extra {
			d[a] = b
		}
		return d
	}
	switch {
	case m.panicked:
		k.Count("panics " + entry)
		fr := c12TopLibFrame(m.stack)
		if entry == c12ReaderEntry {
			// the reader promises to turn panics into errors: one that escapes is its own finding
			fr = "reader.ReadDocument:escaped:" + fr
		}
		w.viol(k, "panic:"+fr, fmt.Sprintf("%s panicked on a %d-octet input of family %s: %s", entry, n, family, m.panicVal), det(map[string]any{"stack": c12TrimStack(m.stack)}))
	case m.accepted:
		k.Count("accepted " + entry)
	}
	if m.alloc > 8<<20 {
		k.Count("calls_allocating_over_8MiB")
	}
	if bound := w.allocBound(entry, n); m.alloc > bound {
		site := "unknown"
		w.allocSeen[entry]++
		if w.allocSeen[entry] > 2 || w.allocSeen["*"] >= 24 {
			// the first two at an entry in this worker process (24 overall) get the confirming
			// repeat and the site analysis; further ones are only counted: the finding is reported
			k.Count(fmt.Sprintf("alloc_bound_exceeded_not_analysed %s %s", entry, family))
			if m.alloc > 128<<20 {
				runtime.GC()
				debug.FreeOSMemory()
			}
			return m
		}
		w.allocSeen["*"]++
		// the cumulative count also contains the garbage of long computations: the verdict needs
		// the heap to actually hold that much at some moment of an immediate repeat
		// (the same repeat is bracketed by heap profile snapshots for the allocation site)
		var peak uint64
		site = c12AllocSite(func() { peak = c12PeakLive(fn) })
		debug.FreeOSMemory()
		if peak <= bound {
			w.allocSeen[entry]--
			w.allocSeen["*"]--
			k.Count("alloc_bound_exceeded_cumulatively_but_not_live " + entry)
			return m
		}
		k.Count(fmt.Sprintf("alloc_violations %s %s", entry, family))
		key := "alloc:" + site
		if site == "unknown" || site == "outside-library" {
			key = fmt.Sprintf("alloc:%s:%s", entry, family)
		}
		w.viol(k, key,
			fmt.Sprintf("%s allocated %d bytes (%.1f MiB; %.1f MiB held at once on the repeat) for a %d-octet input (bound %d); largest allocation site: %s", entry, m.alloc, float64(m.alloc)/(1<<20), float64(peak)/(1<<20), n, bound, site),
			det(map[string]any{"bound": bound, "site": site, "peak_live_bytes": peak}))
	} else if m.alloc > 128<<20 {
		runtime.GC()
		debug.FreeOSMemory()
	}
	if bound := w.cpuBound(entry, n); m.cpu > bound {
		// the machine may be slower now than when the bound's constants were chosen (other
		// processes, page-fault contention): scale the bound by a reference workload measured now
		slow := w.slowdown()
		bound = time.Duration(float64(bound) * slow)
		m2 := c12Measure(fn)
		w.caseCPU += m2.cpu
		if m.cpu > bound && m2.cpu > bound {
			w.viol(k, fmt.Sprintf("cpu:%s:%s", entry, family),
				fmt.Sprintf("%s used %v of CPU time for a %d-octet input (bound %v), %v on the repeat", entry, m.cpu, n, bound, m2.cpu), det(map[string]any{"cpu_bound_ms": bound.Milliseconds(), "repeat_cpu_ms": m2.cpu.Milliseconds()}))
		} else {
			k.Count("cpu_bound_missed_once_only")
		}
	}
	k.Max("max_cpu_ms "+entry, m.cpu.Milliseconds())
	k.Max("max_alloc_KiB "+entry, int64(m.alloc>>10))
	w.cpuSum[entry] += m.cpu
	return m
}

func c12TrimStack(st string) string {
	lines := strings.Split(st, "\n")
	// drop the harness's recover frames at the top, keep from the first library line
	for i, l := range lines {
		if strings.Contains(l, "github.com/gmrtd/gmrtd/") {
			if i > 0 {
				lines = lines[i:]
			}
			break
		}
	}
	if len(lines) > 24 {
		lines = lines[:24]
	}
	return strings.Join(lines, "\n")
}

// c12Reference is a fixed workload: arithmetic over a 4 MiB table plus first-touch of 32 MiB
// of fresh memory. Its thread CPU time at worker start is the unit; slowdown() reports how
// much longer it takes now (>= 1).
func c12Reference() time.Duration {
	t0 := c12CPU()
	tab := make([]uint64, 1<<19)
	x := uint64(88172645463325252)
	for i := 0; i < 6<<20; i++ {
		x ^= x << 13
		x ^= x >> 7
		x ^= x << 17
		tab[x&(1<<19-1)] += x
	}
	fresh := make([]byte, 32<<20)
	for i := 0; i < len(fresh); i += 4096 {
		fresh[i] = byte(x)
	}
	c12Sink = tab[fresh[4096]] + uint64(fresh[len(fresh)-1])
	return c12CPU() - t0
}

var c12Sink uint64

func (w *c12World) slowdown() float64 {
	if w.refUnit == 0 {
		return 1
	}
	now := c12Reference()
	f := float64(now) / float64(w.refUnit)
	if f < 1 {
		f = 1
	}
	return f
}

// ---------------------------------------------------------------------------------------
// slog at Debug for a 10 % slice

var (
	c12QuietLog = slog.New(slog.NewTextHandler(io.Discard, &slog.HandlerOptions{Level: slog.LevelError + 8}))
	c12DebugLog = slog.New(slog.NewTextHandler(io.Discard, &slog.HandlerOptions{Level: slog.LevelDebug}))
)

// withLogging runs body with slog at Debug (into a discarding handler) for every tenth
// case, and restores the silent default afterwards.
func (w *c12World) withLogging(k *fw.K, body func()) {
	w.caseCPU = 0
	t0 := c12CPU()
	defer func() {
		// thread CPU of the whole case (input generation and metering included) and of the
		// library calls alone, per entry, in milliseconds
		cl, _, _ := strings.Cut(k.Desc, "|")
		k.CountN("cpu_ms_case_total "+cl, (c12CPU() - t0).Milliseconds())
		for e, d := range w.cpuSum {
			k.CountN("cpu_ms_library_calls "+e, d.Milliseconds())
			delete(w.cpuSum, e)
		}
	}()
	if k.Idx%10 == 7 {
		w.debugOn = true
		slog.SetDefault(c12DebugLog)
		k.Count("cases_with_debug_logging")
		defer func() {
			slog.SetDefault(c12QuietLog)
			w.debugOn = false
		}()
	}
	body()
}

// ---------------------------------------------------------------------------------------
// doubling families

type c12Scale struct {
	name     string
	n0, nmax int
	gen      func(n int) []byte // nil result: size not applicable
}

func (w *c12World) probe(k *fw.K, e *c12Entry, sc c12Scale) {
	type pt struct {
		n   int
		in  []byte
		cpu time.Duration
	}
	var pts []pt
	for n := sc.n0; n <= sc.nmax; n *= 2 {
		in := sc.gen(n)
		if in == nil {
			continue
		}
		if e.kind != "cbor" {
			c12ClampClaims(in)
		}
		m := w.exec(k, e.name, "doubling:"+sc.name, len(in), func() string { return c12Hex(in) }, func() bool { return e.call(in) })
		k.Distinct(fmt.Sprintf("%s|doubling:%s|%d", e.name, sc.name, n))
		pts = append(pts, pt{n, in, m.cpu})
		if m.cpu > 4*time.Second || w.caseCPU > c12CaseCPUBudget || m.panicked {
			break
		}
	}
	// sustained super-quadratic growth: the last THREE sizes, both intervals above exponent
	// 2.5, more than 1 s (scaled by the machine's current slowdown) at the largest, and the
	// same again on an immediate repeat of all three. One slow measurement at the largest size
	// (cache and memory-bandwidth effects on a busy machine) does not make a growth law.
	if len(pts) < 3 {
		return
	}
	p3 := pts[len(pts)-3:]
	expo := func(t0, t1 time.Duration, n0, n1 int) float64 {
		return math.Log2(float64(t1)/float64(t0)) / math.Log2(float64(n1)/float64(n0))
	}
	judge := func(t [3]time.Duration) (bool, float64, float64) {
		if t[0] < 5*time.Millisecond {
			return false, 0, 0
		}
		e1 := expo(t[0], t[1], len(p3[0].in), len(p3[1].in))
		e2 := expo(t[1], t[2], len(p3[1].in), len(p3[2].in))
		return e1 > 2.5 && e2 > 2.5, e1, e2
	}
	t1 := [3]time.Duration{p3[0].cpu, p3[1].cpu, p3[2].cpu}
	ok, e1, e2 := judge(t1)
	if t1[0] >= 5*time.Millisecond {
		k.Max("max_growth_exponent_x100 "+e.name, int64(math.Min(e1, e2)*100))
	}
	if !ok || t1[2] < time.Second {
		return
	}
	slow := w.slowdown()
	var t2 [3]time.Duration
	for i := range p3 {
		in := p3[i].in
		t2[i] = c12Measure(func() bool { return e.call(in) }).cpu
	}
	ok2, f1, f2 := judge(t2)
	if !ok2 || float64(t1[2]) < float64(time.Second)*slow || float64(t2[2]) < float64(time.Second)*slow {
		k.Count("growth_missed_once_only")
		return
	}
	w.viol(k, fmt.Sprintf("cpu:%s:growth:%s", e.name, sc.name),
		fmt.Sprintf("%s: CPU time grows with exponents %.2f, %.2f (repeat %.2f, %.2f) over %d -> %d -> %d octets of family %s: %v -> %v -> %v", e.name, e1, e2, f1, f2, len(p3[0].in), len(p3[1].in), len(p3[2].in), sc.name, t1[0], t1[1], t1[2]),
		map[string]any{"entry": e.name, "scale": sc.name, "sizes": []int{len(p3[0].in), len(p3[1].in), len(p3[2].in)}, "cpu_ms": []int64{t1[0].Milliseconds(), t1[1].Milliseconds(), t1[2].Milliseconds()}, "machine_slowdown": slow, "input_small": c12Hex(p3[0].in)})
}

// ---------------------------------------------------------------------------------------
// driver

func runC12(c *fw.Ctx) {
	runtime.LockOSThread()
	_ = syscall.Setrlimit(syscall.RLIMIT_CORE, &syscall.Rlimit{Cur: 0, Max: 0})
	slog.SetDefault(c12QuietLog)

	// setup (identical in every worker and on replay): seeds and warm genuine baselines
	// the worker's own collector: few processors and a lazy pacing (the library's big-number
	// arithmetic churns through gigabytes with a tiny live heap; at GOGC 100 and 16 processors
	// the collector costs more than the library), bounded by a soft limit well below RLIMIT_AS
	runtime.GOMAXPROCS(2)
	debug.SetGCPercent(200)
	c12Ballast = make([]byte, 64<<20)
	w := c12BuildWorld(c)
	entries := c12Entries(w)
	// unit of the reference workload: the fastest of three runs on the still idle worker
	for i := 0; i < 3; i++ {
		if d := c12Reference(); w.refUnit == 0 || d < w.refUnit {
			w.refUnit = d
		}
	}
	// from here on a fatal error of the Go runtime (out of memory, stack exhaustion) must end
	// the process by signal, so that the parent attributes it to the last logged case
	// (a plain fatal error exits with status 2, which the parent reads as a broken harness)
	debug.SetTraceback("crash")

	perEntry := c.Pick(5000, 200000)
	for _, e := range entries {
		e := e
		// --- genuine seeds as proper cases (a panic on a genuine file is attributed)
		c.Case(fmt.Sprintf("entry=%s|family=genuine|seeds=%d", e.name, len(e.seeds)), func(k *fw.K) {
			w.ensureBase(e)
			w.withLogging(k, func() {
				k.Nontrivial(e.name + "|genuine")
				for i, s := range e.seeds {
					s := s
					m := w.exec(k, e.name, "genuine", len(s), func() string { return c12Hex(s) }, func() bool { return e.call(s) })
					k.Distinct(fmt.Sprintf("%s|genuine|%d", e.name, i))
					if m.accepted {
						k.Count("genuine_accepted " + e.name)
					} else {
						k.Count("genuine_refused " + e.name)
					}
				}
			})
		})
		// --- volume families
		total := perEntry / e.cost
		bundle := e.bundle
		if bundle == 0 {
			bundle = 50
		}
		fams := c12Families(e)
		nCases := (total + bundle - 1) / bundle
		c.Cases(nCases, func(i int) string {
			return fmt.Sprintf("entry=%s|family=%s|bundle=%d|i=%d", e.name, c12PickFamily(fams, i), bundle, i)
		}, func(i int, k *fw.K) {
			fam := c12PickFamily(fams, i)
			w.ensureBase(e)
			w.withLogging(k, func() {
				k.Nontrivial(fmt.Sprintf("%s|%s|%d", e.name, fam, i))
				for j := 0; j < bundle; j++ {
					in := w.gen(k.RNG, e, fam)
					used := fam
					if in == nil {
						// the seed drawn has no element this family changes (no OID, no INTEGER, ...):
						// the input count is kept with a byte mutation instead
						k.Count("family_not_applicable_replaced_by_byte_mutation " + fam)
						used = map[string]string{"tuple": "part-mutate-bytes"}[e.kind]
						if used == "" {
							used = "mutate-bytes"
						}
						if in = w.gen(k.RNG, e, used); in == nil {
							continue
						}
					}
					if len(in) > 4*c12MaxInput {
						in = in[:4*c12MaxInput]
					}
					if e.kind != "cbor" { // CBOR: the inner files are clamped before the checksum is computed
						c12ClampClaims(in)
					}
					w.exec(k, e.name, used, len(in), func() string { return c12Hex(in) }, func() bool { return e.call(in) })
					k.Distinct(fmt.Sprintf("%s|%s|%x", e.name, used, c12Hash(in)))
					k.Count("family " + used)
					if w.caseCPU > c12CaseCPUBudget {
						k.Count("bundles_cut_short_by_cpu_budget")
						break
					}
				}
			})
		})
		// --- directed adversarial inputs, few per case
		for _, d := range w.directed(e) {
			d := d
			c.Case(fmt.Sprintf("entry=%s|family=%s", e.name, d.family), func(k *fw.K) {
				w.ensureBase(e)
				w.withLogging(k, func() {
					k.Nontrivial(e.name + "|" + d.family)
					for _, in := range d.gen() {
						in := in
						w.exec(k, e.name, d.family, len(in), func() string { return c12Hex(in) }, func() bool { return e.call(in) })
						k.Distinct(fmt.Sprintf("%s|%s|%x", e.name, d.family, c12Hash(in)))
						k.Count("family " + d.family)
						if w.caseCPU > c12CaseCPUBudget {
							k.Count("bundles_cut_short_by_cpu_budget")
							break
						}
					}
				})
			})
		}
		// --- doubling families
		for _, sc := range w.scales(e) {
			sc := sc
			c.Case(fmt.Sprintf("entry=%s|family=doubling:%s|n=%d..%d", e.name, sc.name, sc.n0, sc.nmax), func(k *fw.K) {
				w.ensureBase(e)
				w.withLogging(k, func() {
					k.Nontrivial(e.name + "|doubling:" + sc.name)
					w.probe(k, e, sc)
				})
			})
		}
	}
	// --- evidence built through the public structs, offline verifier, reader
	c12EvidenceCases(c, w)
	c12ReaderCases(c, w)
	c12CraftedEvidenceCases(c, w) // last: earlier case indices stay unchanged
}

// c12ClampClaims rewrites, in place, every octet pair that a BER reader could take for a
// 4-octet length of 32 MiB or more (84 xx with xx >= 02). Volume inputs are clamped
// because a reader that allocates the claimed length before checking it (H8) would end the
// worker process on a large share of the random mutants (each death costs a respawn and a
// confirming run) and spend the run zeroing memory; claims of 16..32 MiB stay and are caught
// by the allocation oracle, 256 MiB..1 GiB claims are the directed family length-lie-big and
// the 4 GiB claims run unclamped, alone in their case (family length-4GiB).
func c12ClampClaims(b []byte) {
	for i := 0; i+1 < len(b); i++ {
		if b[i] == 0x84 && b[i+1] >= 0x02 {
			b[i+1] &= 0x01
		}
	}
}

func c12Hash(b []byte) uint64 {
	h := uint64(14695981039346656037)
	for _, x := range b {
		h ^= uint64(x)
		h *= 1099511628211
	}
	return h ^ uint64(len(b))<<48
}

type c12Fam struct {
	name   string
	weight int
}

func c12PickFamily(fams []c12Fam, i int) string {
	tot := 0
	for _, f := range fams {
		tot += f.weight
	}
	// low-discrepancy walk over the weights so that every family gets its share for any case count
	x := int((uint64(i)*2654435761 + 12345) % uint64(tot))
	for _, f := range fams {
		if x < f.weight {
			return f.name
		}
		x -= f.weight
	}
	return fams[0].name
}

// ensureBase measures, once per worker process and entry, every genuine seed at the entry
// twice (the second, warm pass counts: lazy initialisation inside the library is not an
// input's doing). It runs at the start of the first case of the entry that this worker owns.
func (w *c12World) ensureBase(e *c12Entry) {
	if w.base[e.name] != nil {
		return
	}
	if e.prepare != nil {
		e.prepare()
	}
	var b *c12Base
	for pass := 0; pass < 2; pass++ {
		b = &c12Base{}
		for _, s := range e.seeds {
			s := s
			m := c12Measure(func() bool { return e.call(s) })
			if m.alloc > b.alloc {
				b.alloc = m.alloc
			}
			if m.cpu > b.cpu {
				b.cpu = m.cpu
			}
			b.n++
		}
	}
	w.base[e.name] = b
}

var _ = mrand.New
