package checks

import (
	"fmt"
	"math/big"
	mrand "math/rand/v2"

	"verifharness/chipsim"
	"verifharness/fw"
	"verifharness/issuer"
)

// C07 / C12, hostile chip class "crafted recovered message".
//
// Whoever holds the private key of DG15 (a clone with its own key, a forged evidence
// bundle) decides what the verifier recovers: for any byte string F below the modulus the
// response S = F^d mod N opens to exactly F. So the parser of the recovered message sees
// attacker-chosen input of any length - in particular the short and degenerate strings
// that a bit flip of a genuine signature never produces: nothing, a single octet, a header
// without trailer, header + trailer and nothing else, a trailer that announces a digest
// that is not there, every digest length from none to four more than the hash gives.
// Oracle: no such response is accepted unless the integer-valued reference finds a valid
// signature over the challenge in it (possible: header, empty or short M1, correct digest,
// trailer), and nothing panics (runner).

type c07F struct {
	name string // class, used in violation details and C12 labels
	f    []byte
}

var c07FAlphabet = []byte{0x6A, 0x4A, 0xBC, 0xCC, 0x34, 0x38, 0x36, 0x35, 0x33, 0x00}

var c07FTrailers = [][]byte{{0xBC}, {0xCC}, {0x34, 0xCC}, {0x38, 0xCC}, {0x36, 0xCC}, {0x35, 0xCC}, {0x33, 0xCC}, {0x00, 0xCC}, {0xBC, 0xCC}, {0xCC, 0xCC}, {0xBC, 0xBC}, {0x6A, 0xCC}}

func c07Cat(parts ...[]byte) []byte {
	var out []byte
	for _, p := range parts {
		out = append(out, p...)
	}
	return out
}

// c07ShortFs: every degenerate and short shape (group "short").
func c07ShortFs(full bool) []c07F {
	var out []c07F
	add := func(name string, f []byte) { out = append(out, c07F{name, f}) }
	add("empty", nil)
	for _, b := range []byte{0x01, 0x6A, 0xBC, 0xCC, 0x4A, 0x34, 0xFF} {
		add("one-octet", []byte{b})
	}
	for _, a := range c07FAlphabet {
		if a == 0 || (!full && a != 0x6A && a != 0x4A && a != 0xBC && a != 0xCC) {
			continue
		}
		for _, b := range c07FAlphabet {
			add("two-octets", []byte{a, b})
		}
	}
	for _, a := range c07FAlphabet {
		for _, b := range c07FAlphabet {
			if !full && b != 0xBC && b != 0xCC {
				continue
			}
			add("three-octets", []byte{0x6A, a, b})
		}
	}
	for _, h := range []byte{0x6A, 0x4A} {
		for _, t := range c07FTrailers {
			for bl := 0; bl <= 3; bl++ {
				if !full && h != 0x6A && bl > 0 {
					continue
				}
				for _, fill := range []byte{0x00, 0x6A, 0xCC} {
					if bl == 0 && fill != 0 {
						continue
					}
					if !full && fill == 0xCC {
						continue
					}
					body := make([]byte, bl)
					for i := range body {
						body[i] = fill
					}
					add("header-body-trailer", c07Cat([]byte{h}, body, t))
				}
			}
		}
	}
	return out
}

// c07DigestLengthFs: header 6A, the trailer of hash h, and between them 0..hashlen+4 octets:
// the tail of the correct digest (too short), the correct digest with an empty / short M1
// (valid for the reference), and zeros.
func c07DigestLengthFs(r *mrand.Rand, h chipsim.AAHash, rnd []byte, boundariesOnly bool) []c07F {
	var out []c07F
	t := chipsim.AATrailers[h]
	hl := len(c07Hash(h, nil))
	for bl := 0; bl <= hl+4; bl++ {
		if boundariesOnly && !(bl <= 2 || (bl >= hl-1 && bl <= hl+1) || bl == hl+4) {
			continue
		}
		var body []byte
		if bl < hl {
			d := c07Hash(h, rnd)
			body = d[hl-bl:]
		} else {
			m1 := randBytes(r, bl-hl)
			body = c07Cat(m1, c07Hash(h, c07Cat(m1, rnd)))
		}
		out = append(out, c07F{fmt.Sprintf("digest-length-%d-of-%d", bl, hl), c07Cat([]byte{0x6A}, body, t)})
		out = append(out, c07F{fmt.Sprintf("zeros-length-%d-of-%d", bl, hl), c07Cat([]byte{0x6A}, make([]byte, bl), t)})
		if bl >= hl {
			// the same with another header / without header
			out = append(out, c07F{"short-valid-body-wrong-header", c07Cat([]byte{0x4A}, body, t)})
			out = append(out, c07F{"short-valid-body-no-header", c07Cat(body, t)})
		}
	}
	return out
}

// c07SignF: S = F^d mod N on the modulus length.
func c07SignF(key *issuer.RSAKey, f []byte) *big.Int {
	return new(big.Int).Exp(new(big.Int).SetBytes(f), key.D, key.N)
}

var c07CraftGroups = []string{"short", "sha1", "sha224", "sha256", "sha384", "sha512"}

func c07CraftedCase(c *fw.Ctx, k *fw.K, bits, idx int, group int) {
	r := k.RNG
	key := issuer.RSAKeyOf(bits, idx)
	spki := key.SPKI()
	kb := (key.RSA.N.BitLen() + 7) / 8
	rnd := randBytes(r, 8)
	var fs []c07F
	if group == 0 {
		fs = c07ShortFs(true)
	} else {
		fs = c07DigestLengthFs(r, chipsim.AAHash(group-1), rnd, false)
	}
	desc := fmt.Sprintf("RSA-%d#%d e=%v", bits, idx, key.RSA.E)
	for _, f := range fs {
		s := c07SignF(key.RSA, f.f)
		// the reference must recover what was planted (harness invariant)
		if back := new(big.Int).Exp(s, key.RSA.E, key.RSA.N); back.Cmp(new(big.Int).SetBytes(f.f)) != 0 {
			fw.Bug("c07 crafted: S^e mod N is not the planted message (%s)", desc)
		}
		encs := [][]byte{s.FillBytes(make([]byte, kb))}
		if group == 0 {
			if m := s.Bytes(); len(m) != kb && len(m) > 0 {
				encs = append(encs, m)
			}
			encs = append(encs, append([]byte{0}, encs[0]...))
		}
		for _, sig := range encs {
			refOK := c07RefRSA(key.RSA.N, key.RSA.E, sig, rnd)
			k.Distinct(fmt.Sprintf("crafted|%s|%x|%x|%d", desc, rnd, f.f, len(sig)))
			k.Count("crafted_recovered_message:" + c07CraftGroups[group])
			if refOK {
				k.Count("crafted_recovered_message_valid_for_reference")
			}
			det := func(route string) map[string]any {
				return map[string]any{"key": desc, "spki": hexCap(spki, 700), "challenge": fmt.Sprintf("%x", rnd), "response": hexCap(sig, 1100), "recovered_message": fmt.Sprintf("%x", f.f), "class": f.name, "route": route}
			}
			k.AddEvals(2)
			acc, _, _ := c07Validate(k, spki, sig, rnd)
			if acc && !refOK {
				k.Violation("aa:accepts-invalid:rsa-crafted-recovered-message:"+c07FClass(f.name), fmt.Sprintf("response whose recovered message is %x (%s) accepted although it is not a valid signature over the challenge (%s)", f.f, f.name, desc), det("validate"))
			}
			if acc {
				k.Count("crafted_recovered_message_accepted_valid_equivalent")
			} else {
				k.Count("crafted_recovered_message_rejected")
			}
			offAcc, _ := c07Offline(spki, sig, rnd, c07RSAOID)
			if offAcc && !refOK {
				k.Violation("aa:offline:accepts-invalid:rsa-crafted-recovered-message:"+c07FClass(f.name), fmt.Sprintf("evidence whose recovered message is %x (%s) accepted by VerifyEvidence although it is not a valid signature over the nonce (%s)", f.f, f.name, desc), det("verify-evidence"))
			}
		}
	}
}

// c07FClass strips the numbers of a class name (digest-length-3-of-20 -> digest-length).
func c07FClass(name string) string {
	for i := 0; i < len(name); i++ {
		if name[i] >= '0' && name[i] <= '9' {
			for i > 0 && name[i-1] == '-' {
				i--
			}
			return name[:i]
		}
	}
	return name
}
