package checks

import (
	crand "crypto/rand"
	"fmt"
	"io"
	"math/big"

	"github.com/gmrtd/gmrtd/document"

	"verifharness/chipsim"
	"verifharness/ecref"
	"verifharness/fw"
	"verifharness/perso"
	"verifharness/symref"
)

// C14, ground genuine sessions. The drawn sessions of c14Case meet an agreed x-coordinate, a
// key coordinate or a scalar with a leading zero octet once in 256 sessions, and never a key
// larger than the usual ones. The statement quantifies over ALL genuine sessions, so the
// sessions here are steered into those corners - the chip grinds its ephemeral keys
// (chipsim Grind* options), the personalisation grinds the static keys, and the terminal's
// randomness (crypto/rand.Reader, already replaced by the deterministic reader of fw) is
// rewritten at the moment the library draws an ephemeral key. Every such session is still a
// genuine session with a conforming chip: only the random choices are unusual. The oracle is
// the one of the drawn sessions (c14Judge): live and offline verdicts agree, evidence of a
// mechanism that succeeded live verifies offline.

// modulus sizes of the pre-generated key pool (issuer/testdata/rsakeys.json); the large ones
// come first so that the quick rotation always reaches them
var c14RSABits = []int{1024, 3072, 1536, 4096, 2048, 1025, 1026, 1027, 1028, 1029, 1030, 1031}

type c14Edge struct {
	mech    string // CAM, CA, AA-RSA, AA-EC
	kind    string // what is ground
	curve   int    // CAM: standardised parameter id (8..18); CA, AA-EC: index into ecref.All()
	suite   symref.Suite
	form    int // CA key form
	arrange int // CA key arrangement
	bits    int
	hash    chipsim.AAHash
	der     bool
	rep     int
	fields  bool // evidence-field mutations on top of the genuine oracle
}

func (e c14Edge) String() string {
	switch e.mech {
	case "CAM":
		return fmt.Sprintf("CAM %s param=%d suite=%v rep=%d", e.kind, e.curve, e.suite, e.rep)
	case "CA":
		return fmt.Sprintf("CA %s curve=%s suite=%v form=%d arrange=%d rep=%d", e.kind, ecref.All()[e.curve].Name, e.suite, e.form, e.arrange, e.rep)
	case "AA-RSA":
		return fmt.Sprintf("AA-RSA %s bits=%d hash=%d rep=%d", e.kind, e.bits, e.hash, e.rep)
	}
	return fmt.Sprintf("AA-EC %s curve=%s der=%v rep=%d", e.kind, ecref.All()[e.curve].Name, e.der, e.rep)
}

// class is the part of a violation key that names the ground corner.
func (e c14Edge) class() string {
	switch e.mech {
	case "AA-RSA":
		if e.kind == "size" {
			return fmt.Sprintf("rsa-%d", e.bits)
		}
		return fmt.Sprintf("rsa-%d:%s", e.bits, e.kind)
	case "AA-EC":
		form := "plain"
		if e.der {
			form = "der"
		}
		if e.kind == "size" {
			return fmt.Sprintf("ecdsa-%s-%s", ecref.All()[e.curve].Name, form)
		}
		return fmt.Sprintf("ecdsa-%s-%s:%s", ecref.All()[e.curve].Name, form, e.kind)
	}
	return e.kind
}

var c14CAMKinds = []string{
	// chip side
	"chip-map-x", "chip-map-y", "chip-ka-x", "chip-ka-y", "map-shared-x", "caic-lz", "nonce-lz", "static-x", "static-y",
	// terminal side
	"term-map-pri-lz1", "term-map-pri-lz2", "term-map-pub-x", "term-map-pub-y", "term-ka-pri-lz1", "term-ka-pri-lz2", "term-ka-pub-x", "term-ka-pub-y",
}

var c14CAKinds = []string{"term-pri-lz1", "term-pri-lz2", "term-pub-x", "term-pub-y", "static-x", "static-y"}

const c14P521 = 10 // index of P-521 in ecref.All() (parameter id 18)

// c14EdgePlan is a pure function of the tier.
func c14EdgePlan(c *fw.Ctx) []c14Edge {
	if ecref.All()[c14P521].Name != "P-521" || ecref.ByParamID(18).Name != "P-521" {
		fw.Bug("c14: curve table changed")
	}
	var out []c14Edge
	reps := c.Pick(1, 4)
	aes := symref.AllSuites[1:]
	for rep := 0; rep < reps; rep++ {
		fields := c.Thorough() && rep == 0
		// --- PACE-CAM
		for pid := 8; pid <= 18; pid++ {
			for si, s := range aes {
				out = append(out, c14Edge{mech: "CAM", kind: "shared-x-1", curve: pid, suite: s, rep: rep, fields: fields})
				// two leading zero octets cost 65536 steps; on P-521 (top octet holds one bit) 512
				if pid == 18 || (c.Thorough() && rep == 0 && (pid+si)%3 == 0) {
					out = append(out, c14Edge{mech: "CAM", kind: "shared-x-2", curve: pid, suite: s, rep: rep})
				}
			}
			for ki, kind := range c14CAMKinds {
				out = append(out, c14Edge{mech: "CAM", kind: kind, curve: pid, suite: aes[(pid+ki+rep)%3], rep: rep, fields: fields && ki%4 == pid%4})
			}
		}
		// --- CA
		for cv := 0; cv < 11; cv++ {
			for si, s := range symref.AllSuites {
				e := c14Edge{mech: "CA", kind: "shared-x-1", curve: cv, suite: s, form: (cv + si + rep) % 3, arrange: (cv + si + rep) % 4, rep: rep, fields: fields}
				if e.arrange == 3 {
					// no ChipAuthenticationInfo: the reader infers 3DES (MSE:Set KAT)
					e.suite = symref.TDES
					if s != symref.TDES {
						e.arrange = 1
					}
				}
				out = append(out, e)
				if cv == c14P521 || (c.Thorough() && rep == 0 && (cv+si)%4 == 0) {
					e.kind, e.fields = "shared-x-2", false
					out = append(out, e)
				}
			}
			for ki, kind := range c14CAKinds {
				s := symref.AllSuites[(cv+ki+rep)%4]
				e := c14Edge{mech: "CA", kind: kind, curve: cv, suite: s, form: (cv + ki) % 3, arrange: (cv + ki + rep) % 3, rep: rep, fields: fields && ki%3 == cv%3}
				out = append(out, e)
			}
		}
		// --- AA, RSA: every modulus size x every hash; ground signature representative
		for _, bits := range c14RSABits {
			for h := 0; h < 5; h++ {
				out = append(out, c14Edge{mech: "AA-RSA", kind: "size", bits: bits, hash: chipsim.AAHash(h), rep: rep, fields: fields && (bits+h)%5 == 0})
			}
		}
		for h := 0; h < 5; h++ {
			out = append(out, c14Edge{mech: "AA-RSA", kind: "sig-lz", bits: 1024, hash: chipsim.AAHash(h), rep: rep})
			if c.Thorough() && rep == 0 {
				out = append(out, c14Edge{mech: "AA-RSA", kind: "sig-lz", bits: []int{1536, 2048}[h%2], hash: chipsim.AAHash(h), rep: rep})
			}
		}
		// --- AA, ECDSA: every curve, plain and DER; r / s shorter than the order
		for cv := 0; cv < 11; cv++ {
			for _, der := range []bool{false, true} {
				for _, kind := range []string{"size", "r-lz", "s-lz"} {
					out = append(out, c14Edge{mech: "AA-EC", kind: kind, curve: cv, der: der, rep: rep, fields: fields && kind == "size"})
				}
			}
		}
	}
	return out
}

// ---------------------------------------------------------------------------------------
// steering the terminal's ephemeral keys

// c14Steer wraps the deterministic crypto/rand reader; hook may rewrite what was drawn.
type c14Steer struct {
	inner io.Reader
	hook  func(p []byte)
}

func (s *c14Steer) Read(p []byte) (int, error) {
	n, err := s.inner.Read(p)
	if err == nil && n == len(p) && s.hook != nil {
		s.hook(p)
	}
	return n, err
}

func orderLen(cv *ecref.Curve) int { return (cv.N.BitLen() + 7) / 8 }

// The library draws an ephemeral private key with crypto/elliptic.GenerateKey: len(order)
// octets from the reader, excess top bits masked off, second octet xored with 0x42, retried
// when not below the order. c14ScalarOf / c14PutScalar are that map and its inverse, so that
// the monitor can choose the scalar. (If the library drew its keys differently the sessions
// would simply not be steered: the "edge_not_realised" counters show it, no oracle depends
// on it.)
func c14ScalarOf(cv *ecref.Curve, raw []byte) *big.Int {
	b := append([]byte{}, raw...)
	if m := cv.N.BitLen() % 8; m != 0 {
		b[0] &= byte(1<<uint(m)) - 1
	}
	b[1] ^= 0x42
	return new(big.Int).SetBytes(b)
}

func c14PutScalar(cv *ecref.Curve, k *big.Int, raw []byte) {
	k.FillBytes(raw)
	raw[1] ^= 0x42
}

func c14InRange(cv *ecref.Curve, k *big.Int) *big.Int {
	k = new(big.Int).Mod(k, cv.N)
	if k.Cmp(big.NewInt(2)) < 0 {
		k.SetInt64(2)
	}
	return k
}

// c14GrindScalar steps (k, k*base) until pred holds for the point; 2 <= k < n.
func c14GrindScalar(cv *ecref.Curve, k *big.Int, base ecref.Point, pred func(ecref.Point) bool) *big.Int {
	k = c14InRange(cv, k)
	pt := cv.Mul(k, base)
	// two zero octets take 65536 steps on average: the bound is far in the tail
	for i := 0; i < 4000000; i++ {
		if !pt.Inf && pred(pt) {
			return k
		}
		pt = cv.AddAffine(pt, base)
		k.Add(k, big.NewInt(1))
		if k.Cmp(cv.N) >= 0 {
			k.SetInt64(2)
			pt = cv.Mul(k, base)
		}
	}
	fw.Bug("c14: grinding a terminal key did not terminate")
	return nil
}

func lzOctets(b []byte) int {
	n := 0
	for n < len(b) && b[n] == 0 {
		n++
	}
	return n
}

// c14ZeroTop clears the n leading octets of the scalar the library will derive from raw.
func c14ZeroTop(cv *ecref.Curve, raw []byte, n int) {
	k := c14ScalarOf(cv, raw)
	b := k.FillBytes(make([]byte, len(raw)))
	for i := 0; i < n; i++ {
		b[i] = 0
	}
	if lzOctets(b) == len(b) {
		b[len(b)-1] = 2
	}
	c14PutScalar(cv, new(big.Int).SetBytes(b), raw)
}

func xLZ(cv *ecref.Curve, n int) func(ecref.Point) bool {
	return func(q ecref.Point) bool { return lzOctets(cv.FE2OS(q.X)) >= n }
}
func yLZ(cv *ecref.Curve, n int) func(ecref.Point) bool {
	return func(q ecref.Point) bool { return lzOctets(cv.FE2OS(q.Y)) >= n }
}

// c14Prep configures chip and terminal randomness for one ground session.
func c14Prep(e c14Edge, k *fw.K) func(card *chipsim.Card) {
	return func(card *chipsim.Card) {
		steer := &c14Steer{inner: crand.Reader}
		crand.Reader = steer
		switch e.mech {
		case "CAM":
			ps := card.PACE
			cv := ecref.ByParamID(e.curve)
			switch e.kind {
			case "shared-x-1":
				ps.GrindSharedX = 1
			case "shared-x-2":
				ps.GrindSharedX, ps.GrindMaxSteps = 2, 4000000 // 65536 steps on average
			case "chip-map-x":
				ps.GrindPKMapX = 1
			case "chip-map-y":
				ps.GrindPKMapY = 1
			case "chip-ka-x":
				ps.GrindPKDHX = 1
			case "chip-ka-y":
				ps.GrindPKDHY = 1
			case "map-shared-x":
				ps.GrindMapSharedX = 1
			case "caic-lz":
				ps.GrindCAIC = 1
			case "nonce-lz":
				nonce := randBytes(k.RNG, 16)
				nonce[0], nonce[1] = 0, 0
				ps.NextNonce = nonce
			}
			ord := 0
			steer.hook = func(p []byte) {
				if card.PACEDone || len(p) != orderLen(cv) {
					return
				}
				ord++
				// a draw at or above the order would be discarded by the library and drawn again;
				// reduce it so that the n-th draw is the n-th key
				c14PutScalar(cv, c14InRange(cv, c14ScalarOf(cv, p)), p)
				switch {
				case ord == 1 && e.kind == "term-map-pri-lz1":
					c14ZeroTop(cv, p, 1)
				case ord == 1 && e.kind == "term-map-pri-lz2":
					c14ZeroTop(cv, p, 2)
				case ord == 1 && e.kind == "term-map-pub-x":
					c14PutScalar(cv, c14GrindScalar(cv, c14ScalarOf(cv, p), cv.G(), xLZ(cv, 1)), p)
				case ord == 1 && e.kind == "term-map-pub-y":
					c14PutScalar(cv, c14GrindScalar(cv, c14ScalarOf(cv, p), cv.G(), yLZ(cv, 1)), p)
				case ord == 2 && e.kind == "term-ka-pri-lz1":
					c14ZeroTop(cv, p, 1)
				case ord == 2 && e.kind == "term-ka-pri-lz2":
					c14ZeroTop(cv, p, 2)
				case ord == 2 && (e.kind == "term-ka-pub-x" || e.kind == "term-ka-pub-y"):
					g, ok := ps.MappedGenerator()
					if !ok {
						return
					}
					pred := xLZ(cv, 1)
					if e.kind == "term-ka-pub-y" {
						pred = yLZ(cv, 1)
					}
					c14PutScalar(cv, c14GrindScalar(cv, c14ScalarOf(cv, p), g, pred), p)
				}
			}
		case "CA":
			cv := ecref.All()[e.curve]
			done := false
			steer.hook = func(p []byte) {
				// the first key drawn on the CA curve once access control is through
				if done || !card.Authed || card.CA == nil || len(card.CA.Keys) == 0 || len(p) != orderLen(cv) {
					return
				}
				done = true
				c14PutScalar(cv, c14InRange(cv, c14ScalarOf(cv, p)), p)
				static := card.CA.Keys[len(card.CA.Keys)-1].Pub // the key the ChipAuthenticationInfo selects
				switch e.kind {
				case "shared-x-1":
					c14PutScalar(cv, c14GrindScalar(cv, c14ScalarOf(cv, p), static, xLZ(cv, 1)), p)
				case "shared-x-2":
					c14PutScalar(cv, c14GrindScalar(cv, c14ScalarOf(cv, p), static, xLZ(cv, 2)), p)
				case "term-pri-lz1":
					c14ZeroTop(cv, p, 1)
				case "term-pri-lz2":
					c14ZeroTop(cv, p, 2)
				case "term-pub-x":
					c14PutScalar(cv, c14GrindScalar(cv, c14ScalarOf(cv, p), cv.G(), xLZ(cv, 1)), p)
				case "term-pub-y":
					c14PutScalar(cv, c14GrindScalar(cv, c14ScalarOf(cv, p), cv.G(), yLZ(cv, 1)), p)
				}
			}
		case "AA-RSA":
			if e.kind == "sig-lz" {
				card.AA.GrindLeadingZero = 1
			}
		case "AA-EC":
			switch e.kind {
			case "r-lz":
				card.AA.GrindLeadingZero = 1
			case "s-lz":
				card.AA.GrindLeadingZero = 2
			}
		}
	}
}

// pointLZ reports whether coordinate (0 = X, 1 = Y) of an uncompressed point starts with n zero octets.
func pointLZ(enc []byte, coord, n int) bool {
	if len(enc) < 3 || enc[0] != 0x04 || len(enc)%2 != 1 {
		return false
	}
	l := (len(enc) - 1) / 2
	return lzOctets(enc[1+coord*l:1+(coord+1)*l]) >= n
}

// c14Realised checks, from what the chip saw and what the library recorded, that the session
// really is in the corner it was ground for. Harness arithmetic only.
func c14Realised(e c14Edge, s *c14Session) bool {
	live := s.docEx
	switch e.mech {
	case "CAM":
		if !mechOK(live, "CAM") || live.Session.PaceCamResult.Evidence == nil || s.card.PACE == nil {
			return false
		}
		ev, ps, cv := live.Session.PaceCamResult.Evidence, s.card.PACE, ecref.ByParamID(e.curve)
		switch e.kind {
		case "shared-x-1":
			return ps.SharedXLeading >= 1
		case "shared-x-2":
			return ps.SharedXLeading >= 2
		case "chip-map-x":
			return pointLZ(ev.ChipMapPub, 0, 1)
		case "chip-map-y":
			return pointLZ(ev.ChipMapPub, 1, 1)
		case "chip-ka-x":
			return pointLZ(ev.ChipKaPub, 0, 1)
		case "chip-ka-y":
			return pointLZ(ev.ChipKaPub, 1, 1)
		case "map-shared-x":
			q, err := cv.Decode(ev.ChipMapPub)
			if err != nil {
				return false
			}
			h := cv.Mul(new(big.Int).SetBytes(ev.TermMapPri), q)
			return !h.Inf && lzOctets(cv.FE2OS(h.X)) >= 1
		case "caic-lz":
			return len(ps.CAIC) > 0 && ps.CAIC[0] == 0
		case "nonce-lz":
			return lzOctets(ev.Nonce) >= 2
		case "static-x", "static-y":
			q := cv.Mul(ps.CAMPriv, cv.G())
			if e.kind == "static-x" {
				return xLZ(cv, 1)(q)
			}
			return yLZ(cv, 1)(q)
		case "term-map-pri-lz1":
			return len(ev.TermMapPri) == orderLen(cv) && lzOctets(ev.TermMapPri) >= 1
		case "term-map-pri-lz2":
			return len(ev.TermMapPri) == orderLen(cv) && lzOctets(ev.TermMapPri) >= 2
		case "term-ka-pri-lz1":
			return len(ev.TermKaPri) == orderLen(cv) && lzOctets(ev.TermKaPri) >= 1
		case "term-ka-pri-lz2":
			return len(ev.TermKaPri) == orderLen(cv) && lzOctets(ev.TermKaPri) >= 2
		case "term-map-pub-x":
			return pointLZ(ev.TermMapPub, 0, 1)
		case "term-map-pub-y":
			return pointLZ(ev.TermMapPub, 1, 1)
		case "term-ka-pub-x":
			return pointLZ(ev.TermKaPub, 0, 1)
		case "term-ka-pub-y":
			return pointLZ(ev.TermKaPub, 1, 1)
		}
	case "CA":
		if !mechOK(live, "CA") || live.Session.ChipAuthResult.Evidence == nil || s.card.CA == nil {
			return false
		}
		ev, ca, cv := live.Session.ChipAuthResult.Evidence, s.card.CA, ecref.All()[e.curve]
		switch e.kind {
		case "shared-x-1":
			return lzOctets(ca.K) >= 1
		case "shared-x-2":
			return lzOctets(ca.K) >= 2
		case "term-pri-lz1":
			return len(ev.TermPri) == orderLen(cv) && lzOctets(ev.TermPri) >= 1
		case "term-pri-lz2":
			return len(ev.TermPri) == orderLen(cv) && lzOctets(ev.TermPri) >= 2
		case "term-pub-x":
			return pointLZ(ev.TermPubKey, 0, 1)
		case "term-pub-y":
			return pointLZ(ev.TermPubKey, 1, 1)
		case "static-x":
			return xLZ(cv, 1)(ca.Keys[len(ca.Keys)-1].Pub)
		case "static-y":
			return yLZ(cv, 1)(ca.Keys[len(ca.Keys)-1].Pub)
		}
	case "AA-RSA":
		if !mechOK(live, "AA") || live.Session.ActiveAuthResult.Evidence == nil {
			return false
		}
		sig := live.Session.ActiveAuthResult.Evidence.Signature
		if e.kind == "sig-lz" {
			return len(sig) == (e.bits+7)/8 && sig[0] == 0
		}
		return len(sig) == (e.bits+7)/8
	case "AA-EC":
		if !mechOK(live, "AA") || live.Session.ActiveAuthResult.Evidence == nil || s.card.AA == nil || s.card.AA.LastR == nil {
			return false
		}
		n := orderLen(ecref.All()[e.curve])
		switch e.kind {
		case "r-lz":
			return len(s.card.AA.LastR.Bytes()) < n
		case "s-lz":
			return len(s.card.AA.LastS.Bytes()) < n
		}
		return true
	}
	return false
}

// c14CountSizes records the sizes of the captured evidence fields of a mechanism that
// succeeded live, so that the evidence file shows how large the fields really got.
func c14CountSizes(k *fw.K, live *document.DocumentEx, mech string) {
	switch mech {
	case "AA":
		if ev := live.Session.ActiveAuthResult.Evidence; ev != nil {
			k.Count(fmt.Sprintf("aa_signature_octets_%03d", len(ev.Signature)))
		}
	case "CA":
		if ev := live.Session.ChipAuthResult.Evidence; ev != nil {
			k.Count(fmt.Sprintf("ca_terminal_key_octets_%03d", len(ev.TermPubKey)))
			k.Count(fmt.Sprintf("ca_counter_octets_%02d", len(ev.SmSsc)))
			k.Count(fmt.Sprintf("ca_response_octets_%02d", len(ev.SmRapdu)))
		}
	case "CAM":
		if ev := live.Session.PaceCamResult.Evidence; ev != nil {
			k.Count(fmt.Sprintf("cam_chip_key_octets_%03d", len(ev.ChipKaPub)))
			k.Count(fmt.Sprintf("cam_ecad_octets_%03d", len(ev.EcadIC)))
		}
	}
}

func c14EdgeCase(c *fw.Ctx, k *fw.K, i int, e c14Edge) {
	r := k.RNG
	pp := randPlan(r, false)
	o := &pp.o
	o.AA, o.CA = perso.AAOpts{}, perso.CAOpts{}
	live := ""
	switch e.mech {
	case "CAM":
		live = "CAM"
		o.Access, o.ParamID, o.Suite = perso.PACECAM, e.curve, e.suite
		switch e.kind {
		case "static-x":
			o.CAMGrindPub = 1
		case "static-y":
			o.CAMGrindPub = 2
		}
	case "CA":
		live = "CA"
		if o.Access == perso.PACECAM {
			o.Access = perso.PACEGMOnly
		}
		o.CA = perso.CAOpts{On: true, Curve: e.curve, Suite: e.suite, Form: e.form, Arrange: e.arrange}
		switch e.kind {
		case "static-x":
			o.CA.GrindPub = 1
		case "static-y":
			o.CA.GrindPub = 2
		}
	case "AA-RSA":
		live = "AA"
		o.AA = perso.AAOpts{Kind: 1, Bits: e.bits, Hash: e.hash}
	case "AA-EC":
		live = "AA"
		o.AA = perso.AAOpts{Kind: 2, Curve: e.curve, DER: e.der}
	}
	pp.extended, pp.maxLe, pp.chipCap, pp.leCap, pp.shortRnd, pp.skipImg = true, 65536, 0, 0, false, false
	if o.DG2Size > 3000 {
		o.DG2Size = 0
	}
	p := perso.Build(r, *o)
	base := uint64(1)<<40 + uint64(i)*2
	s1 := c14Live(k, p, pp, base+1, fmt.Sprintf("c14/edge/%d/a", i), c14Prep(e, k))
	if s1 == nil {
		return
	}
	name := e.mech + "_" + e.kind
	switch {
	case !mechOK(s1.docEx, live):
		// whether the live mechanism copes with the corner is the business of C04 / C06 / C07
		k.Count("edge_live_mechanism_failed_" + name)
	case c14Realised(e, s1):
		k.Count("edge_realised_" + name)
		if e.mech == "AA-RSA" {
			k.Count(fmt.Sprintf("edge_realised_AA-RSA_bits_%d", e.bits))
		}
	default:
		k.Count("edge_not_realised_" + name)
	}
	var s2 *c14Session
	if e.fields {
		s2 = c14Live(k, p, pp, base+2, fmt.Sprintf("c14/edge/%d/b", i), c14Prep(e, k))
	}
	if i%16 == 0 {
		k.Sample("edge", map[string]any{"edge": e.String(), "plan": pp.String(), "blob_bytes": len(s1.blob), "live_success": mechOK(s1.docEx, live)})
	}
	c14Judge(c, k, fmt.Sprintf("edge%d", i), pp, p, s1, s2, c14JudgeOpts{fields: e.fields, class: e.class(), classMech: live})
}
