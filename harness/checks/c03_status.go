package checks

import (
	"bytes"
	"fmt"

	"verifharness/chipsim"
	"verifharness/fw"
	"verifharness/symref"
)

// C03, status dimension. The status word is part of what a response says, and the chip may
// put any value into DO'99'. For every status word of the sweep (quick: SW1 61..6F and 90 x
// SW2 00..FF with one suite each, plus the named ones with every suite; thorough: all 65536
// with every suite) one exchange is made and the terminal-side session, positioned at the
// counter of that exchange, is given
//   - the genuine protected response (status alone resp. data + status): it must decode to
//     exactly (data, status), the counters must agree, and the genuine answer of a further
//     exchange must decode as well;
//   - responses nobody authenticated that claim the same status: the bare status word, the
//     status in DO'99' with an all-zero or a missing checksum, the genuine response of the
//     neighbouring status (sw xor 1) with DO'99' and the trailer rewritten to sw, and the
//     genuine response under another outer status (sw xor 0100, and 9000). Each must
//     yield an error.

func c03StatusBlock(c *fw.Ctx, k *fw.K, sws []uint16, allSuites bool) {
	r := k.RNG
	for _, sw := range sws {
		suites := []symref.Suite{symref.AllSuites[int(sw+sw>>8+1)%4]}
		if allSuites {
			suites = symref.AllSuites
		}
		for si, suite := range suites {
			kenc, kmac := randKey(r, suite), randKey(r, suite)
			ssc0 := startSSC(r, suite, int(sw>>3)+int(sw)+si)
			lib := newLibSM(k, suite, kenc, kmac, ssc0)
			chip := chipsim.NewSM(suite, kenc, kmac, ssc0)
			name := swName(sw)
			var plain []byte
			if (int(sw)+si)%2 == 1 {
				plain = randBytes(r, 1+int(sw>>2)%21)
			}
			cmd := plainCmd{ins: 0xB0, p2: byte(sw), ne: 256}
			prot, err := lib.Encode(cmd.capdu())
			if err != nil {
				k.Count("status_encode_error")
				continue
			}
			if _, err := chip.Unwrap(prot.Encode()); err != nil {
				k.Count("status_chip_refused_command") // C10's subject
				continue
			}
			sscAfterEncode := lib.SSC()
			sscPre := append([]byte{}, chip.SSC...)
			resp := chip.Wrap(plain, sw)
			det := func(kind string, v []byte) map[string]any {
				return map[string]any{"suite": suite.String(), "kenc": fmt.Sprintf("%x", kenc), "kmac": fmt.Sprintf("%x", kmac), "ssc_after_encode": fmt.Sprintf("%x", sscAfterEncode),
					"genuine_response": hexCap(resp, 200), "variant_kind": kind, "variant": hexCap(v, 200), "plain_len": len(plain), "sw": fmt.Sprintf("%04x", sw)}
			}
			k.Distinct(fmt.Sprintf("status|%v|%04x|%d", suite, sw, len(plain)))

			// forged responses claiming this status
			swb := []byte{byte(sw >> 8), byte(sw)}
			nsw := sw ^ 1
			neighbour := chipsim.NewSM(suite, kenc, kmac, sscPre).Wrap(plain, nsw)
			rewritten := append([]byte{}, neighbour...)
			if at := bytes.LastIndex(rewritten[:len(rewritten)-2], []byte{0x99, 0x02, byte(nsw >> 8), byte(nsw)}); at >= 0 {
				rewritten[at+2], rewritten[at+3] = swb[0], swb[1]
			}
			rewritten[len(rewritten)-2], rewritten[len(rewritten)-1] = swb[0], swb[1]
			osw := sw ^ 0x0100
			forged := []c03Variant{
				{"unprotected-sw", swb},
				{"unprotected-do99-8e-zero", append(append([]byte{0x99, 0x02, swb[0], swb[1], 0x8E, 0x08}, make([]byte, 8)...), swb...)},
				{"unprotected-do99", append([]byte{0x99, 0x02, swb[0], swb[1]}, swb...)},
				{"status-rewrite", rewritten},
				{"outer-sw", append(append([]byte{}, resp[:len(resp)-2]...), byte(osw>>8), byte(osw))},
			}
			if len(plain) > 0 {
				forged = append(forged, c03Variant{"unprotected-plain", append(append([]byte{}, plain...), swb...)})
			}
			if sw != 0x9000 { // the genuine response under an outer status that says "success"
				forged = append(forged, c03Variant{"outer-sw", append(append([]byte{}, resp[:len(resp)-2]...), 0x90, 0x00)})
			}
			for _, v := range forged {
				k.AddEvals(1)
				t := newLibSM(k, suite, kenc, kmac, sscAfterEncode)
				rr, err := t.Decode(append([]byte{}, v.b...))
				if err != nil {
					k.Count("status_rejected_" + v.kind)
					continue
				}
				var gl int
				var gs uint16
				if rr != nil {
					gl, gs = len(rr.Data), rr.Status
				}
				k.Violation("sm:status:accepts:"+v.kind+":"+name, fmt.Sprintf("%s variant claiming status %04x accepted with %d bytes / status %04x although nobody authenticated it", v.kind, sw, gl, gs), det(v.kind, v.b))
			}

			// the genuine one
			k.AddEvals(1)
			k.Count("status_genuine")
			got, err := lib.Decode(append([]byte{}, resp...))
			if err != nil {
				k.Violation("sm:status:genuine-rejected:"+name, fmt.Sprintf("genuine protected response with status %04x (%d data bytes) rejected: %v", sw, len(plain), err), det("genuine", resp))
				continue
			}
			if !bytesEq(got.Data, plain) || got.Status != sw {
				k.Violation("sm:status:genuine-wrong-plaintext:"+name, fmt.Sprintf("genuine response decoded to %d bytes / %04x, expected %d bytes / %04x", len(got.Data), got.Status, len(plain), sw), det("genuine", resp))
				continue
			}
			if !bytesEq(lib.SSC(), chip.SSC) {
				k.Violation("sm:status:ssc-after-genuine:"+name, fmt.Sprintf("counter after a genuine exchange answered %04x: terminal %x chip %x", sw, lib.SSC(), chip.SSC), det("genuine", resp))
				continue
			}
			// the answer of the following exchange is still authenticated under the right counter
			k.AddEvals(1)
			cmd2 := smallCmd(r)
			prot2, err := lib.Encode(cmd2.capdu())
			if err != nil {
				k.Count("status_encode_error")
				continue
			}
			if _, err := chip.Unwrap(prot2.Encode()); err != nil {
				k.Violation("sm:status:following-command-not-authenticated:"+name, fmt.Sprintf("after the genuine response with status %04x the chip refuses the next command: %v", sw, err), det("genuine", resp))
				continue
			}
			plain2 := genRespData(r, false)
			resp2 := chip.Wrap(plain2, 0x9000)
			got2, err := lib.Decode(append([]byte{}, resp2...))
			if err != nil || !bytesEq(got2.Data, plain2) || got2.Status != 0x9000 {
				k.Violation("sm:status:following-genuine-rejected:"+name, fmt.Sprintf("after the genuine response with status %04x the genuine answer of the next exchange is not delivered: %v", sw, err), det("following", resp2))
				continue
			}
			k.Count("status_histories_completed")
			if sw>>8 != 0x90 && sw>>12 != 6 {
				k.Count("status_histories_outside_6xxx_9000")
			}
		}
	}
}

func runC03Status(c *fw.Ctx) {
	c.Case("status|named x all suites", func(k *fw.K) {
		k.Nontrivial("")
		c03StatusBlock(c, k, smISOStatusWords, true)
	})
	blocks := c10StatusBlocks(c)
	c.Cases(len(blocks), func(i int) string { return fmt.Sprintf("status|sw1=%02x", blocks[i][0]>>8) }, func(i int, k *fw.K) {
		k.Nontrivial("")
		c03StatusBlock(c, k, blocks[i], c.Thorough())
	})
}
