package checks

import (
	"bytes"
	"crypto/sha1"
	"fmt"
	"os"
	"strings"

	"github.com/gmrtd/gmrtd/mrz"
	"github.com/gmrtd/gmrtd/password"

	"verifharness/fw"
	"verifharness/mrzref"
)

// C18 - MRZ decoding enforces ICAO check digits and key material is layout-independent.
//
// Reference: verifharness/mrzref (std lib only): 7-3-1 check digit, the three layouts from
// the ICAO position tables, a generator that returns zone + fields, MRZ information from
// the fields.
//
// Oracles
//   completeness (generator output only): MrzDecode accepts and every decoded field equals
//     the generated field. Normalisation: the library presents fillers as spaces and drops
//     trailing ones, so both sides are compared with ' ' == '<' and trailing fillers removed.
//   soundness (every string): MrzDecode accepts a 90/72/88 string => no non-empty checked
//     field (sliced from the raw string by the reference tables) and not the composite
//     disagrees with the reference check digit. All-filler fields are outside the statement.
//   key seed (generator output; and any accepted string whose three key fields are
//     well-formed): NewPasswordMrz(zone), NewPasswordMrzi(fields) and decoded.EncodeMrzi()
//     give the reference MRZ information, Key() = SHA-1 of it.

func init() {
	register(&fw.Spec{
		ID:    "C18",
		Level: "exploration",
		Rule: "case = (a) one generated ICAO-well-formed zone (TD1/TD2/TD3; document number lengths 1..9 and the long form 10..22/10..14 stratified by index) decoded and its key seed taken by every route; " +
			"(b) one of those zones with every single-symbol substitution (all positions x 37 symbols; also each with the composite repaired, and with the field's own check digit repaired), every adjacent transposition, every single insertion and deletion, pair deletions/insertions and truncation/padding onto the other layouts' lengths; " +
			"(c) a block of 100 arbitrary strings (uniform, filler-heavy, digit-heavy, with a random subset of check digits repaired, unset fields, long-form tails; lengths 90/72/88 and others, a few with bytes outside the alphabet); " +
			"non-trivial = a string of length 90/72/88 (every generated zone; every mutant/arbitrary string of those lengths); distinct = distinct generated zone, distinct accepted mutant or arbitrary string, distinct (zone, mutation class)",
		MinEvaluations: 500000,
		Assumptions: []string{
			"the reference in mrzref (7-3-1 check digit, position tables of Doc 9303 parts 4-6, MRZ information of part 11) is correct; it is self-tested against the five specimen zones printed in Doc 9303 at the start of every worker",
			"well-formed long document numbers carry no filler in the part that overflows into the optional field (a filler there makes the ICAO encoding itself ambiguous), and generated optional data does not start with a filler",
			"'non-empty checked field' is read literally: an all-filler field is outside the statement whatever its check digit position holds, and the same reading is applied to the composite; a non-empty TD1/TD2 number with '<' as check digit is judged in the long form, and any split of the optional field whose check digit agrees counts as agreeing",
			"field equality is judged with ' ' == '<' and trailing fillers removed (the library's documented presentation); the two name identifiers are compared separately",
			"key-seed equality is asserted for generated zones and for accepted strings whose three key fields are ICAO-well-formed; accepted strings with unset ('<' check digit over fillers) key fields are only counted",
		},
		Run: runC18,
	})
}

type c18State struct {
	k        *fw.K
	seenKeys map[string]bool
}

func (s *c18State) violation(key, what string, detail map[string]any) {
	if s.seenKeys[key] {
		s.k.Count("further_violations_same_key_same_case")
		return
	}
	s.seenKeys[key] = true
	s.k.Violation(key, what, detail)
}

// c18Norm maps the library's presentation onto ICAO characters: ' ' -> '<', trailing removed.
func c18Norm(s string) string {
	return strings.TrimRight(strings.ReplaceAll(s, " ", "<"), "<")
}

func c18DocClass(layout string, n int) string {
	switch {
	case n > 9:
		return "extended"
	case n == 9:
		return "full"
	}
	return "short"
}

// c18Zone regenerates generated zone i of a layout (pure function of seed, layout, i).
func c18Zone(seed int64, layout string, i int) (string, mrzref.Fields) {
	r := fw.NewRNG(seed, fmt.Sprintf("c18-zone/%s/%d", layout, i))
	var docLen int
	switch layout {
	case mrzref.TD1:
		if i%3 == 2 {
			docLen = 10 + (i/3)%13
		} else {
			docLen = 1 + (i-i/3)%9
		}
	case mrzref.TD2:
		if i%3 == 2 {
			docLen = 10 + (i/3)%5
		} else {
			docLen = 1 + (i-i/3)%9
		}
	default:
		docLen = 1 + i%9
	}
	return mrzref.Generate(r, layout, docLen)
}

// c18Sound applies the soundness implication and the key-seed implication to any string.
// It returns whether MrzDecode accepted.
func c18Sound(s *c18State, str, origin string) bool {
	k := s.k
	k.AddEvals(1)
	dec, err := mrz.MrzDecode(str)
	layout := mrzref.LayoutOfLen(len(str))
	if layout == "" {
		k.Count("other_length")
		if err == nil {
			s.violation("mrz:accepts-bad-length", fmt.Sprintf("MrzDecode accepts a string of %d characters", len(str)), map[string]any{"input": str, "origin": origin})
		}
		if p, perr := password.NewPasswordMrz(str); perr == nil {
			s.violation("mrz:keyseed-from-bad-length", fmt.Sprintf("NewPasswordMrz accepts a string of %d characters", len(str)), map[string]any{"input": str, "origin": origin, "password": p.Password})
		}
		return false
	}
	accepted := err == nil
	if accepted && dec == nil {
		s.violation("mrz:nil-result:"+layout, "MrzDecode returned (nil, nil)", map[string]any{"input": str, "origin": origin})
		return false
	}
	if accepted {
		k.Count("accepted_" + layout)
		k.Distinct("acc|" + str)
		v, _ := mrzref.Judge(str)
		for _, l := range v.Lenient {
			k.Count("lenient_" + l)
		}
		for _, l := range v.Skipped {
			k.Count("skipped_nonalphabet_" + l)
		}
		for _, b := range v.Bad {
			s.violation("mrz:accepts-bad-checkdigit:"+layout+":"+b.Field,
				fmt.Sprintf("MrzDecode accepts a %s zone whose %s %q carries check digit %q, reference 7-3-1 value %q", layout, b.Field, b.Data, b.Got, b.Want),
				map[string]any{"input": str, "origin": origin, "field": b.Field, "data": b.Data, "check_digit_in_zone": b.Got, "reference": b.Want, "decoded": fmt.Sprintf("%+v", *dec)})
		}
	} else {
		k.Count("rejected_" + layout)
	}

	// key seed from the full zone
	pw, perr := password.NewPasswordMrz(str)
	if perr != nil {
		if accepted {
			// a zone MrzDecode accepts but the key route refuses: only meaningful when the
			// key fields are well-formed
			if info, ext, ok := mrzref.RawInformation(str); ok {
				s.violation("mrz:keyseed-route-mismatch:"+layout+":"+c18Form(ext)+":mrz-route-rejects",
					"NewPasswordMrz rejects a zone that MrzDecode accepts and whose key fields are well-formed: "+perr.Error(),
					map[string]any{"input": str, "origin": origin, "reference_information": info})
			}
		}
		return accepted
	}
	k.Count("keyseed_mrz_route_ok_" + layout)
	info, ext, ok := mrzref.RawInformation(str)
	if !ok {
		// unset fields / disagreeing digits / odd long forms: nothing is demanded
		k.Count("keyseed_from_zone_with_nonconformant_key_fields")
		if accepted {
			if re, e := dec.EncodeMrzi(); e == nil && re != pw.Password {
				k.Count("keyseed_routes_differ_on_nonconformant_accepted_zone")
				if strings.HasPrefix(origin, "substitute") && !strings.Contains(origin, "repaired") {
					// e.g. unknown birth date "<<<<<<0" -> "<<<<<<<": composite unchanged
					k.Count("keyseed_routes_differ_after_single_substitution_to_unset_form")
					k.Sample("single-substitution-route-difference", map[string]any{"mutant": str, "mutation": origin, "mrz_route": pw.Password, "decoded_reencoded": re})
				}
				k.Sample("nonconformant-route-difference", map[string]any{"input": str, "mrz_route": pw.Password, "decoded_reencoded": re})
			}
		}
		return accepted
	}
	if pw.Password != info {
		s.violation("mrz:keyseed-route-mismatch:"+layout+":"+c18Form(ext)+":mrz-vs-ref",
			fmt.Sprintf("NewPasswordMrz gives %q, MRZ information of the zone is %q", pw.Password, info),
			map[string]any{"input": str, "origin": origin})
	}
	if accepted {
		re, e := dec.EncodeMrzi()
		if e != nil || re != info {
			s.violation("mrz:keyseed-route-mismatch:"+layout+":"+c18Form(ext)+":decoded-vs-ref",
				fmt.Sprintf("decoded fields re-encoded give %q (err %v), MRZ information of the zone is %q", re, e, info),
				map[string]any{"input": str, "origin": origin, "decoded_docno": dec.DocumentNumber, "decoded_birth": dec.DateOfBirth, "decoded_expiry": dec.DateOfExpiry})
		}
	}
	return accepted
}

func c18Form(ext bool) string {
	if ext {
		return "extended"
	}
	return "plain"
}

// c18Valid: completeness + key-seed routes for one generated zone.
func c18Valid(s *c18State, zone string, f mrzref.Fields) {
	k := s.k
	layout := f.Layout
	cls := c18DocClass(layout, len(f.DocumentNumber))
	// the generator must satisfy the reference judge (harness self-consistency)
	if v, ok := mrzref.Judge(zone); !ok || len(v.Bad) != 0 || len(v.Skipped) != 0 {
		fw.Bug("generated zone fails the reference judge: %s %+v", zone, v)
	}
	wantInfo := mrzref.Information(f)
	if info, ext, ok := mrzref.RawInformation(zone); !ok || info != wantInfo || ext != f.Extended() {
		fw.Bug("reference information from fields %q and from raw zone %q (%v) differ: %s", wantInfo, info, ok, zone)
	}
	k.Count("valid_" + layout + "_docno_" + cls)
	k.Count(fmt.Sprintf("valid_docno_len_%02d", len(f.DocumentNumber)))
	if strings.Contains(f.DocumentNumber, "<") {
		k.Count("valid_docno_inner_filler")
	}
	if strings.Contains(f.DateOfBirth, "<") {
		k.Count("valid_birth_partly_unknown")
	}
	if layout == mrzref.TD3 && f.OptionalData == "" {
		k.Count("valid_td3_empty_optional_cd_" + map[byte]string{'<': "filler", '0': "zero"}[f.OptCD])
	}
	if f.Secondary == "" {
		k.Count("valid_name_primary_only")
	}
	if len(f.NameField()) == mrzref.NameLen(layout) {
		k.Count("valid_name_fills_field")
	}
	k.Sample("valid-"+layout, map[string]any{"zone": zone, "docno_class": cls, "information": wantInfo})

	det := func() map[string]any {
		return map[string]any{"input": zone, "fields": fmt.Sprintf("%+v", f), "reference_information": wantInfo}
	}
	dec, err := mrz.MrzDecode(zone)
	k.AddEvals(1)
	if err != nil || dec == nil {
		d := det()
		d["error"] = fmt.Sprint(err)
		s.violation("mrz:rejects-valid:"+layout+":"+cls, fmt.Sprintf("MrzDecode rejects a well-formed %s zone: %v", layout, err), d)
	} else {
		cmp := func(name, got, want string) {
			if c18Norm(got) != strings.TrimRight(want, "<") {
				d := det()
				d["field"], d["got"], d["want"] = name, got, want
				s.violation("mrz:field-mismatch:"+layout+":"+name, fmt.Sprintf("%s decoded as %q, zone encodes %q", name, got, want), d)
			}
		}
		cmp("doccode", dec.DocumentCode, f.DocumentCode)
		cmp("state", dec.IssuingState, f.IssuingState)
		if dec.NameOfHolder == nil {
			s.violation("mrz:field-mismatch:"+layout+":name", "NameOfHolder is nil", det())
		} else {
			cmp("name-primary", dec.NameOfHolder.Primary, f.Primary)
			cmp("name-secondary", dec.NameOfHolder.Secondary, f.Secondary)
		}
		docField := "docno"
		if f.Extended() {
			docField = "docno-extended"
		}
		cmp(docField, dec.DocumentNumber, f.DocumentNumber)
		cmp("nationality", dec.Nationality, f.Nationality)
		cmp("birth", dec.DateOfBirth, f.DateOfBirth)
		cmp("sex", dec.Sex, f.Sex)
		cmp("expiry", dec.DateOfExpiry, f.DateOfExpiry)
		if f.Extended() {
			cmp("optional-after-extended", dec.OptionalData, f.OptionalData)
		} else {
			cmp("optional", dec.OptionalData, f.OptionalData)
		}
		cmp("optional2", dec.OptionalData2, f.OptionalData2)
	}

	// key-seed routes
	wantKey := sha1.Sum([]byte(wantInfo))
	route := func(name string, p *password.Password, e error) {
		k.AddEvals(1)
		key := "mrz:keyseed-route-mismatch:" + layout + ":" + cls + ":" + name
		if e != nil || p == nil {
			d := det()
			d["error"] = fmt.Sprint(e)
			s.violation(key, fmt.Sprintf("key-seed route %s fails on a well-formed zone: %v", name, e), d)
			return
		}
		if p.Password != wantInfo {
			d := det()
			d["got"] = p.Password
			s.violation(key, fmt.Sprintf("key-seed route %s gives %q, MRZ information is %q", name, p.Password, wantInfo), d)
			return
		}
		kb, ke := p.Key()
		if ke != nil || !bytes.Equal(kb, wantKey[:]) {
			d := det()
			d["key"] = fmt.Sprintf("%x", kb)
			s.violation(key+":key", fmt.Sprintf("route %s: Key() is not SHA-1 of the MRZ information (err %v)", name, ke), d)
		}
	}
	p, e := password.NewPasswordMrz(zone)
	route("full-mrz", p, e)
	// the three key fields as ICAO characters (number without trailing fillers)
	p, e = password.NewPasswordMrzi(f.DocumentNumber, f.DateOfBirth, f.DateOfExpiry)
	route("fields-icao", p, e)
	// the same with the library's presentation of fillers
	p, e = password.NewPasswordMrzi(strings.ReplaceAll(f.DocumentNumber, "<", " "),
		strings.TrimRight(strings.ReplaceAll(f.DateOfBirth, "<", " "), " "), f.DateOfExpiry)
	route("fields-spaced", p, e)
	if dec != nil && err == nil {
		re, e := dec.EncodeMrzi()
		route("decoded-reencoded", &password.Password{PasswordType: password.PASSWORD_TYPE_MRZi, Password: re}, e)
		p, e = password.NewPasswordMrzi(dec.DocumentNumber, dec.DateOfBirth, dec.DateOfExpiry)
		route("decoded-fields", p, e)
	}
}

// c18Mutate runs every single-edit mutant of one zone through the soundness oracle.
func c18Mutate(s *c18State, zone string) {
	k := s.k
	n := len(zone)
	layout := mrzref.LayoutOfLen(n)
	pd, pb, pe, po, pc, _, _ := mrzref.CDPositions(layout)
	cdBit := map[int]int{pd: 1, pb: 2, pe: 4, pc: 16}
	if po >= 0 {
		cdBit[po] = 8
	}
	b := []byte(zone)
	buf := make([]byte, n)
	acc := 0
	run := func(m []byte, origin string) {
		if c18Sound(s, string(m), origin) {
			acc++
			if strings.HasSuffix(origin, "field check digit 1 repaired") || !strings.Contains(origin, "repaired") {
				k.Sample("mutant-accepted", map[string]any{"zone": zone, "mutation": origin, "mutant": string(m)})
			}
		}
	}
	// substitutions: plain; composite repaired; each single field check digit repaired
	for p := 0; p < n; p++ {
		for j := 0; j < len(mrzref.Symbols); j++ {
			sym := mrzref.Symbols[j]
			if sym == b[p] {
				continue
			}
			copy(buf, b)
			buf[p] = sym
			run(buf, fmt.Sprintf("substitute %c at %d", sym, p))
			if p != pc {
				copy(buf, b)
				buf[p] = sym
				mrzref.Repair(buf, 16, 0)
				run(buf, fmt.Sprintf("substitute %c at %d, composite repaired", sym, p))
			}
			if _, isCD := cdBit[p]; !isCD {
				for _, bit := range []int{1, 2, 4, 8} {
					copy(buf, b)
					buf[p] = sym
					mrzref.Repair(buf, bit, 0)
					if bytes.Equal(buf[:p], b[:p]) && bytes.Equal(buf[p+1:], b[p+1:]) {
						continue // that check digit does not cover p
					}
					run(buf, fmt.Sprintf("substitute %c at %d, field check digit %d repaired", sym, p, bit))
				}
			}
		}
	}
	k.Distinct("sub|" + zone)
	// adjacent transpositions (plain and composite-repaired)
	for p := 0; p+1 < n; p++ {
		if b[p] == b[p+1] {
			continue
		}
		copy(buf, b)
		buf[p], buf[p+1] = buf[p+1], buf[p]
		run(buf, fmt.Sprintf("transpose %d,%d", p, p+1))
		mrzref.Repair(buf, 16, 0)
		run(buf, fmt.Sprintf("transpose %d,%d, composite repaired", p, p+1))
	}
	k.Distinct("tr|" + zone)
	// single deletions and insertions
	for p := 0; p < n; p++ {
		m := append(append([]byte{}, b[:p]...), b[p+1:]...)
		run(m, fmt.Sprintf("delete at %d", p))
	}
	for p := 0; p <= n; p++ {
		for j := 0; j < len(mrzref.Symbols); j++ {
			m := append(append(append([]byte{}, b[:p]...), mrzref.Symbols[j]), b[p:]...)
			run(m, fmt.Sprintf("insert %c at %d", mrzref.Symbols[j], p))
		}
	}
	// length changes that land on another layout's length
	other := func(m []byte, origin string) {
		run(m, origin)
		if mrzref.LayoutOfLen(len(m)) != "" {
			m2 := append([]byte{}, m...)
			mrzref.Repair(m2, 31, 0)
			run(m2, origin+", all check digits repaired")
		}
	}
	for _, target := range []int{90, 72, 88} {
		d := target - n
		switch {
		case d == 0:
		case d < 0:
			for p := 0; p+(-d) <= n; p++ {
				other(append(append([]byte{}, b[:p]...), b[p-d:]...), fmt.Sprintf("delete %d at %d", -d, p))
			}
		default:
			for p := 0; p <= n; p++ {
				ins := make([]byte, d)
				for i := range ins {
					ins[i] = '<'
					if p%2 == 1 {
						ins[i] = mrzref.Symbols[k.RNG.IntN(len(mrzref.Symbols))]
					}
				}
				other(append(append(append([]byte{}, b[:p]...), ins...), b[p:]...), fmt.Sprintf("insert %d at %d", d, p))
			}
		}
	}
	k.Distinct("len|" + zone)
	k.CountN("mutants_accepted", int64(acc))
}

// c18Arbitrary builds one arbitrary string.
func c18Arbitrary(k *fw.K, j int) (string, string) {
	r := k.RNG
	lens := []int{90, 72, 88}
	n := lens[r.IntN(3)]
	style := j % 10
	if style == 9 {
		// other lengths, including the neighbours of the valid ones and the empty string
		cand := []int{0, 1, 2, 30, 36, 44, 60, 71, 73, 87, 89, 91, 100, 176, 180}
		n = cand[r.IntN(len(cand))]
		if r.IntN(2) == 0 {
			n = r.IntN(200)
		}
		if mrzref.LayoutOfLen(n) != "" {
			n++
		}
	}
	b := make([]byte, n)
	fill := func(set string, pFiller float64) {
		for i := range b {
			if r.Float64() < pFiller {
				b[i] = '<'
			} else {
				b[i] = set[r.IntN(len(set))]
			}
		}
	}
	desc := ""
	switch style {
	case 0, 9:
		fill(mrzref.Symbols, 0)
		desc = "uniform"
	case 1:
		fill(mrzref.Symbols, 0.8)
		desc = "filler-heavy"
	case 2:
		fill("0123456789", 0.2)
		desc = "digit-heavy"
	default:
		// structured: plausible name field, arbitrary rest, then repair a random subset
		fill(mrzref.Symbols, []float64{0, 0.3, 0.6, 0.9}[r.IntN(4)])
		layout := mrzref.LayoutOfLen(n)
		nameOff, nameLen := 5, mrzref.NameLen(layout)
		if layout == mrzref.TD1 {
			nameOff = 60
		}
		if r.IntN(4) != 0 {
			used := r.IntN(nameLen + 1)
			for i := 0; i < nameLen; i++ {
				c := byte('<')
				if i < used {
					c = byte('A' + r.IntN(26))
				}
				b[nameOff+i] = c
			}
			if used > 4 && r.IntN(2) == 0 {
				p := nameOff + 1 + r.IntN(used-3)
				b[p], b[p+1] = '<', '<'
			}
		}
		pd, pb, pe, po, _, extOff, extLen := mrzref.CDPositions(layout)
		// unset fields: all fillers with '<' in the check digit position
		blank := func(from, to int) {
			for i := from; i < to; i++ {
				b[i] = '<'
			}
		}
		if style == 3 || r.IntN(8) == 0 {
			if r.IntN(2) == 0 {
				blank(pd-9, pd+1)
				if extLen > 0 && r.IntN(2) == 0 {
					blank(extOff, extOff+extLen)
				}
			}
			if r.IntN(2) == 0 {
				blank(pb-6, pb+1)
			}
			if r.IntN(2) == 0 {
				blank(pe-6, pe+1)
			}
			if po >= 0 && r.IntN(2) == 0 {
				blank(po-14, po+1)
			}
			desc = "unset+"
		}
		mask := 31
		if r.IntN(3) == 0 {
			mask = r.IntN(32)
		}
		ext := 0
		if extLen > 0 && (style == 4 || r.IntN(6) == 0) {
			ext = 1 + r.IntN(extLen-2)
		}
		// keep '<' check digits of blanked fields: repair only non-blank fields
		keep := append([]byte{}, b...)
		mrzref.Repair(b, mask, ext)
		if strings.HasPrefix(desc, "unset") {
			for _, p := range []int{pd, pb, pe, po} {
				if p >= 0 && keep[p] == '<' && r.IntN(4) != 0 && ext == 0 {
					b[p] = '<'
				}
			}
			if mask&16 != 0 {
				mrzref.Repair(b, 16, 0)
			}
		}
		desc += fmt.Sprintf("structured mask=%d ext=%d", mask, ext)
		if ext > 0 {
			desc = "longform+" + desc
		}
	}
	// a few strings with bytes outside the alphabet (panic / skip paths only)
	if j%50 == 7 && n > 0 {
		outs := []string{" ", "a", "é", "\x00", "*", "-"}
		o := outs[r.IntN(len(outs))]
		p := r.IntN(n)
		if p+len(o) <= n {
			copy(b[p:], o)
		}
		if style >= 3 {
			mrzref.Repair(b, 31, 0)
		}
		desc = "nonalphabet+" + desc
	}
	return string(b), desc
}

func runC18(c *fw.Ctx) {
	if msg := mrzref.SelfTest(); msg != "" {
		fmt.Fprintln(os.Stderr, "HARNESS-BUG C18 reference self-test failed:", msg)
		os.Exit(2)
	}
	nValid := c.Pick(500, 400000)
	nMut := c.Pick(30, 300)
	seed := c.Seed

	// (a) generated zones: completeness, soundness, key-seed routes
	for _, layout := range mrzref.Layouts {
		layout := layout
		c.Cases(nValid, func(i int) string { return fmt.Sprintf("valid-%s|i=%d", layout, i) }, func(i int, k *fw.K) {
			zone, f := c18Zone(seed, layout, i)
			s := &c18State{k: k, seenKeys: map[string]bool{}}
			k.Nontrivial("zone|" + zone)
			c18Valid(s, zone, f)
			if !c18Sound(s, zone, "generated") {
				k.Count("generated_zone_not_accepted")
			}
		})
	}

	// (b) exhaustive single edits of a stratified subset of those zones
	for _, layout := range mrzref.Layouts {
		layout := layout
		stride := nValid / nMut
		c.Cases(nMut, func(j int) string { return fmt.Sprintf("mutate-%s|zone=%d", layout, j*stride+j%stride) }, func(j int, k *fw.K) {
			zone, f := c18Zone(seed, layout, j*stride+j%stride)
			s := &c18State{k: k, seenKeys: map[string]bool{}}
			k.Nontrivial("mut|" + zone)
			k.Count("mutated_" + layout + "_docno_" + c18DocClass(layout, len(f.DocumentNumber)))
			c18Mutate(s, zone)
		})
	}

	// (c) arbitrary strings, 100 per case
	nArb := c.Pick(10000, 20000000) / 100
	c.Cases(nArb, func(i int) string { return fmt.Sprintf("arbitrary|block=%d", i) }, func(i int, k *fw.K) {
		s := &c18State{k: k, seenKeys: map[string]bool{}}
		k.Nontrivial(fmt.Sprintf("arb|%d", i))
		for j := 0; j < 100; j++ {
			str, desc := c18Arbitrary(k, j)
			k.Count("arbitrary_" + strings.SplitN(desc, " ", 2)[0])
			if c18Sound(s, str, "arbitrary: "+desc) {
				k.Count("arbitrary_accepted")
				k.Sample("arbitrary-accepted", map[string]any{"input": str, "style": desc})
			}
		}
	})
}
