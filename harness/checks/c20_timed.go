package checks

import (
	"bytes"
	"crypto/sha256"
	"encoding/json"
	"fmt"
	mrand "math/rand/v2"
	"runtime"
	"sort"
	"strings"
	"sync"
	"sync/atomic"
	"time"

	"github.com/anishathalye/porcupine"

	"github.com/gmrtd/gmrtd/document"
	"github.com/gmrtd/gmrtd/iso7816"
	"github.com/gmrtd/gmrtd/mobile"
	"github.com/gmrtd/gmrtd/password"
	"github.com/gmrtd/gmrtd/reader"

	"verifharness/chipsim"
	"verifharness/fw"
	"verifharness/perso"
	"verifharness/symref"
)

// C20, workload "timed setters": one ReadDocument of a shared reader.Reader / mobile.Reader
// and configuration setters that another thread calls at a chosen point of that read.
//
// The suspension points are the two callbacks the read makes into code the harness owns: the
// transceiver (one per command) and the status receiver (one per phase / data group, also after
// the last command). They are numbered 0..N-1 in the order a lone read makes them; the setter is
// released when point number k is reached, and the read only goes on once the setter's thread
// has either returned or is parked (on the reader's lock, with the unchanged library). k is
// enumerated over every point (and N = "after the read"), so the enumeration does not depend on
// sleeps or on the scheduler.
//
// The chips store and list in EF.SOD BOTH image data groups (DG2 and DG7) with other data
// groups between and after them, offer PACE and BAC (so that SkipPace changes the steps), and
// do Active Authentication (so that the challenge is visible on the wire).
//
// Oracle ("behaves as if the calls had been made one after another: each call returns the
// result a lone call would have returned and no call observes another's configuration
// half-applied"): the abstract result of the read - files obtained with their contents, files
// selected on the chip in order, access-control / authentication steps, phases reported,
// challenge on the wire, largest Le, verdicts - must EQUAL the measured result of a lone
// ReadDocument of a fresh reader configured with the configuration that some sequential order
// of the calls yields; the order must respect calls that did not overlap (porcupine). The lone
// results are measured, one per reachable configuration, not predicted.

// ---------------------------------------------------------------------------------------
// configuration model

type c20tState struct {
	MaxLe      int
	SkipPace   bool
	SkipImages bool
	Chal       string
}

func (s c20tState) apply(op c20Op) c20tState {
	switch op.Kind {
	case "maxle":
		// SetApduMaxLe(0) switches the override off
		s.MaxLe = op.Val
	case "skippace":
		s.SkipPace = true
	case "skipimages":
		s.SkipImages = true
	case "challenge":
		s.Chal = op.Bytes
	}
	return s
}

func (s c20tState) String() string {
	return fmt.Sprintf("maxLe=%d skipPace=%v skipImages=%v challenge=%q", s.MaxLe, s.SkipPace, s.SkipImages, s.Chal)
}

// every configuration some sequence of (a subset of) the case's setter calls can produce
func c20tReachable(ops []c20Op) []c20tState {
	seen := map[c20tState]bool{{}: true}
	list := []c20tState{{}}
	for i := 0; i < len(list); i++ {
		for _, op := range ops {
			n := list[i].apply(op)
			if !seen[n] {
				seen[n] = true
				list = append(list, n)
			}
		}
	}
	return list
}

type c20tOut struct {
	Abs string // abstract result of a read ("" for setters)
}

func c20tModel(lone map[c20tState]string) porcupine.Model {
	return porcupine.Model{
		Init: func() any { return c20tState{} },
		Step: func(st, in, out any) (bool, any) {
			s := st.(c20tState)
			op := in.(c20Op)
			if op.Kind == "read" {
				want, ok := lone[s]
				return ok && out.(c20tOut).Abs == want, s
			}
			return true, s.apply(op)
		},
		Equal: func(a, b any) bool { return a.(c20tState) == b.(c20tState) },
		DescribeOperation: func(in, out any) string {
			return fmt.Sprintf("%+v -> %+v", in, out)
		},
	}
}

// ---------------------------------------------------------------------------------------
// the link: transceiver + status receiver with numbered suspension points

type c20tTrig struct {
	start chan struct{}
	gid   uint64
	fired bool
	// what the thread of the setter was doing when the read went on: "returned" or the
	// state it was parked in
	seen string
}

type c20tLink struct {
	mu       sync.Mutex
	card     *chipsim.Card
	inFlight atomic.Int32
	overlap  atomic.Int32

	points   int                 // suspension points reached in the current read
	trace    []string            // their descriptions
	triggers map[int][]*c20tTrig // released when the point with that number is reached

	// chip-side observations of the current read
	selected  []string
	maxNe     int
	paceSeen  bool
	bacSeen   bool
	caSeen    bool
	challenge []byte
	status    []string
}

func (l *c20tLink) reset(card *chipsim.Card) {
	l.mu.Lock()
	defer l.mu.Unlock()
	if card != nil {
		l.card = card
	}
	l.points, l.trace, l.triggers = 0, nil, map[int][]*c20tTrig{}
	l.selected, l.maxNe, l.paceSeen, l.bacSeen, l.caSeen, l.challenge, l.status = nil, 0, false, false, false, nil, nil
}

// point is called with l.mu held
func (l *c20tLink) point(desc string) {
	idx := l.points
	l.points++
	l.trace = append(l.trace, desc)
	for _, t := range l.triggers[idx] {
		c20tRelease(t)
	}
}

// c20tRelease lets the setter's thread go and returns once that thread has either finished
// or is parked. It does not synchronise with that thread in the direction setter -> read
// (no channel receive, no atomic): the state is taken from the runtime's goroutine dump, so
// the race detector still sees an unsynchronised write of a setter that returns early.
func c20tRelease(t *c20tTrig) {
	if t.fired {
		return
	}
	t.fired = true
	close(t.start)
	t.seen = c20tAwaitParked(t.gid)
}

var c20tDump struct {
	mu  sync.Mutex
	buf []byte
}

// state of goroutine gid as printed by the runtime ("" when it no longer exists)
func c20tGoroutineState(gid uint64) string {
	c20tDump.mu.Lock()
	defer c20tDump.mu.Unlock()
	if c20tDump.buf == nil {
		c20tDump.buf = make([]byte, 1<<20)
	}
	n := runtime.Stack(c20tDump.buf, true)
	if n == len(c20tDump.buf) {
		return "dump-truncated"
	}
	head := []byte(fmt.Sprintf("goroutine %d [", gid))
	dump := c20tDump.buf[:n]
	for {
		i := bytes.Index(dump, head)
		if i < 0 {
			return ""
		}
		if i == 0 || dump[i-1] == '\n' {
			rest := dump[i+len(head):]
			if j := bytes.IndexAny(rest, "],\n"); j >= 0 {
				return string(rest[:j])
			}
			return "?"
		}
		dump = dump[i+len(head):]
	}
}

func c20tAwaitParked(gid uint64) string {
	for i := 0; i < 4000; i++ {
		st := c20tGoroutineState(gid)
		switch {
		case st == "":
			return "returned"
		case st == "running" || st == "runnable" || strings.HasPrefix(st, "syscall") || st == "dump-truncated":
			// not there yet
		default:
			return st
		}
		runtime.Gosched()
		if i%4 == 3 {
			time.Sleep(20 * time.Microsecond)
		}
	}
	return "still-runnable"
}

func (l *c20tLink) Transceive(cla, ins, p1, p2 int, data []byte, le int, enc []byte) []byte {
	if l.inFlight.Add(1) > 1 {
		l.overlap.Add(1)
	}
	defer l.inFlight.Add(-1)
	l.mu.Lock()
	defer l.mu.Unlock()
	l.point(fmt.Sprintf("cmd:%02X", ins&0xff))
	resp := l.card.Transceive(append([]byte{}, enc...))
	ev := l.card.Events[len(l.card.Events)-1]
	if c := ev.Cmd; c != nil {
		switch {
		case c.INS == 0xB0:
			if c.Ne > l.maxNe {
				l.maxNe = c.Ne
			}
		case c.INS == 0xA4 && ev.SW == 0x9000:
			l.selected = append(l.selected, fmt.Sprintf("%02X:%X", c.P1, c.Data))
			l.trace[len(l.trace)-1] += fmt.Sprintf(":%X", c.Data)
		case c.INS == 0x22 && c.P1 == 0xC1 && c.P2 == 0xA4:
			l.paceSeen = true
		case c.INS == 0x22 && c.P1 == 0x41 && c.P2 == 0xA6, c.INS == 0x22 && c.P1 == 0x41 && c.P2 == 0xA4:
			l.caSeen = true
		case c.INS == 0x84:
			l.bacSeen = true
		case c.INS == 0x88:
			l.challenge = append([]byte{}, c.Data...)
		}
	}
	return resp
}

func (l *c20tLink) statusPoint(phase, dg int) {
	l.mu.Lock()
	defer l.mu.Unlock()
	s := fmt.Sprintf("%d/%d", phase, dg)
	l.status = append(l.status, s)
	l.point("status:" + s)
}

type c20tReaderStatus struct{ l *c20tLink }

func (s c20tReaderStatus) Status(st reader.Status) { s.l.statusPoint(int(st.Phase), st.DataGroup) }

type c20tMobileStatus struct{ l *c20tLink }

func (s c20tMobileStatus) Status(phase, dataGroup int) { s.l.statusPoint(phase, dataGroup) }

// ---------------------------------------------------------------------------------------
// abstract result of a read

var c20tFileNames = []string{"CardAccess", "CardSecurity", "DIR", "SOD", "COM", "DG1", "DG2", "DG7", "DG11", "DG12", "DG13", "DG14", "DG15", "DG16"}

func c20tShort(b []byte) string { return fmt.Sprintf("%x", sha256.Sum256(b))[:10] }

// what the chip and the status receiver saw (call with the read finished)
func (l *c20tLink) chipSide(known map[string]bool) (string, string) {
	l.mu.Lock()
	defer l.mu.Unlock()
	ch := fmt.Sprintf("%x", l.challenge)
	switch {
	case len(l.challenge) == 0:
		ch = "none"
	case !known[ch]:
		ch = "random"
	}
	return fmt.Sprintf("selected=%s pace=%v bac=%v ca=%v maxNe=%d wire-challenge=%s status=%s",
		strings.Join(l.selected, ","), l.paceSeen, l.bacSeen, l.caSeen, l.maxNe, ch, strings.Join(l.status, ",")), fmt.Sprintf("%x", l.challenge)
}

type c20tResult struct {
	abs   string
	files map[string]bool
	ok    bool
}

func c20tAbsReader(l *c20tLink, known map[string]bool, docEx *document.DocumentEx, err error) c20tResult {
	chip, wire := l.chipSide(known)
	res := c20tResult{files: map[string]bool{}, ok: err == nil && docEx != nil}
	var sb strings.Builder
	fmt.Fprintf(&sb, "ok=%v\n%s\n", res.ok, chip)
	if docEx != nil {
		sb.WriteString("files=")
		for _, n := range c20tFileNames {
			if b := docFile(&docEx.Document, n); b != nil {
				res.files[n] = true
				fmt.Fprintf(&sb, "%s:%s ", n, c20tShort(b))
			}
		}
		s := &docEx.Session
		fmt.Fprintf(&sb, "\npace=%v/%v cam=%v bac=%v/%v ca=%v/%v", s.PaceResult != nil, s.PaceErr == nil, s.PaceCamResult != nil, s.BacResult != nil, s.BacErr == nil, s.ChipAuthResult != nil, s.ChipAuthErr == nil)
		aa := "absent"
		if r := s.ActiveAuthResult; r != nil {
			aa = fmt.Sprintf("success=%v", r.Success)
			if r.Evidence != nil {
				// the nonce the result records is the challenge that went over the wire
				aa += fmt.Sprintf(" nonce-is-wire-challenge=%v", fmt.Sprintf("%x", r.Evidence.Nonce) == wire)
			}
		}
		fmt.Fprintf(&sb, " aa=%s/%v", aa, s.ActiveAuthErr == nil)
		pa := "absent"
		if r := s.PassiveAuthResult; r != nil {
			pa = fmt.Sprintf("success=%v", r.Success)
		}
		fmt.Fprintf(&sb, " pa=%s/%v verify=%v", pa, s.PassiveAuthErr == nil, s.DocumentVerifyErr == nil)
		sum := docEx.Summary()
		fmt.Fprintf(&sb, " trusted=%v chip=%s", sum.DataTrusted, sum.ChipAuthenticity.String())
	}
	res.abs = sb.String()
	return res
}

func c20tAbsMobile(l *c20tLink, known map[string]bool, doc *mobile.Document, err error) c20tResult {
	chip, _ := l.chipSide(known)
	res := c20tResult{files: map[string]bool{}, ok: err == nil && doc != nil}
	var sb strings.Builder
	fmt.Fprintf(&sb, "ok=%v\n%s\n", res.ok, chip)
	if doc != nil {
		js, e := doc.DocumentExJson()
		var top struct {
			Document struct {
				Mf map[string]json.RawMessage `json:"mf"`
			} `json:"document"`
			Session map[string]json.RawMessage `json:"session"`
		}
		if e != nil || json.Unmarshal(js, &top) != nil {
			fmt.Fprintf(&sb, "json-unusable")
		} else {
			files := map[string]json.RawMessage{}
			for n, v := range top.Document.Mf {
				if n == "lds1" {
					var lds map[string]json.RawMessage
					_ = json.Unmarshal(v, &lds)
					for m, w := range lds {
						files[m] = w
					}
					continue
				}
				files[n] = v
			}
			var names []string
			for n := range files {
				names = append(names, n)
			}
			sort.Strings(names)
			sb.WriteString("files=")
			for _, n := range names {
				res.files[strings.ToUpper(n)] = true
				fmt.Fprintf(&sb, "%s:%s ", n, c20tShort(files[n]))
			}
			// which session results exist (their contents hold session randomness)
			names = nil
			for n := range top.Session {
				names = append(names, n)
			}
			sort.Strings(names)
			fmt.Fprintf(&sb, "\nsession=%s", strings.Join(names, ","))
		}
		if sj, e := doc.SummaryJson(); e == nil {
			var sum struct {
				DataTrusted      bool            `json:"dataTrusted"`
				ChipAuthenticity json.RawMessage `json:"chipAuthenticity"`
			}
			if json.Unmarshal(sj, &sum) == nil {
				fmt.Fprintf(&sb, " trusted=%v chip=%s", sum.DataTrusted, string(sum.ChipAuthenticity))
			}
		}
	}
	res.abs = sb.String()
	return res
}

// ---------------------------------------------------------------------------------------
// the two kinds of shared reader behind one interface

type c20tObj struct {
	name  string
	apply func(op c20Op, own []byte) // one setter call
	read  func() c20tResult
}

func c20tNewObj(mobileKind bool, p *perso.Perso, l *c20tLink, known map[string]bool) *c20tObj {
	if mobileKind {
		mr := mobile.NewReader(c20tMobileStatus{l}, l)
		pw, err := mobile.NewPasswordMrz(p.Zone)
		if err != nil {
			fw.LibFail("mobile-password-rejected", "mobile password constructor rejects valid input: %v", err)
		}
		return &c20tObj{name: "mobile.Reader",
			apply: func(op c20Op, own []byte) {
				switch op.Kind {
				case "maxle":
					_ = mr.SetApduMaxLe(op.Val)
				case "skippace":
					mr.SkipPace()
				case "skipimages":
					mr.SkipImages()
				case "challenge":
					_, _ = mr.WithAAChallenge(own)
				}
			},
			read: func() c20tResult {
				doc, err := mr.ReadDocument(pw, []byte{0x3B, 0x80}, nil)
				return c20tAbsMobile(l, known, doc, err)
			}}
	}
	nfc := iso7816.NewNfcSession(l)
	rd := reader.NewReader(c20tReaderStatus{l}, nfc, trustPool(p.Trust))
	var pw *password.Password
	pw, err := passwordFor(p)
	if err != nil {
		fw.LibFail("password-rejected", "password constructor rejects valid input: %v", err)
	}
	return &c20tObj{name: "reader.Reader",
		apply: func(op c20Op, own []byte) {
			switch op.Kind {
			case "skippace":
				rd.SkipPace()
			case "skipimages":
				rd.SkipImages()
			case "challenge":
				_, _ = rd.WithAAChallenge(own)
			}
		},
		read: func() c20tResult {
			docEx, _, err := rd.ReadDocument(pw, []byte{0x3B, 0x80}, nil)
			return c20tAbsReader(l, known, docEx, err)
		}}
}

func c20tCall(o *c20tObj, op c20Op) {
	var own []byte
	if op.Kind == "challenge" {
		fmt.Sscanf(op.Bytes, "%x", &own)
	}
	o.apply(op, own)
	if own != nil {
		verifCallerOwnedInput_Challenge(own) // the buffer is the caller's again once the call has returned
	}
}

// the calls that put a fresh reader into configuration s (a lone caller, one after another)
func c20tConfigure(o *c20tObj, s c20tState) {
	if s.MaxLe > 0 {
		c20tCall(o, c20Op{Kind: "maxle", Val: s.MaxLe})
	}
	if s.SkipPace {
		c20tCall(o, c20Op{Kind: "skippace"})
	}
	if s.SkipImages {
		c20tCall(o, c20Op{Kind: "skipimages"})
	}
	if s.Chal != "" {
		c20tCall(o, c20Op{Kind: "challenge", Bytes: s.Chal})
	}
}

// ---------------------------------------------------------------------------------------
// chips: both image data groups stored and listed, other data groups between and after

func c20tPerso(r *mrand.Rand, variant int, pace bool) *perso.Perso {
	// DG7 keeps its drawn size (one image of 24..400 bytes): not every total is reachable
	o := perso.Opts{Digest: 2, DG2Size: 300 + r.IntN(700)}
	o.PKI.CertHash = 2
	o.AA = perso.AAOpts{Kind: 1, Bits: 1024, Hash: 2}
	switch variant % 3 {
	case 0: // 1 2 7 11 12 (14) 15
		o.DGs = []int{2, 7, 11, 12}
	case 1: // 1 2 7 (14) 15: the image data groups are neighbours
		o.DGs = []int{2, 7}
	case 2: // 1 2 3 7 13 (14) 15 16 with an unsupported number between the images and an EF.DIR
		o.DGs = []int{2, 7, 13, 16}
		o.Unsupported = []int{3}
		o.EFDIR = true
	}
	if pace {
		// PACE and BAC both offered: SkipPace changes the steps of the read
		o.Access, o.ParamID, o.Suite = perso.PACEGMWithBAC, []int{8, 12, 13}[variant%3], symref.AllSuites[1+variant%3]
	}
	return perso.Build(r, o)
}

// ---------------------------------------------------------------------------------------
// one case

type c20tPlan struct {
	mobile  bool
	variant int
	pace    bool    // the chip offers PACE as well as BAC
	pre     []c20Op // setter calls made (and returned) before the read starts
	timed   []c20Op // setter calls released at enumerated points of the read
	second  int     // mobile.Reader: at every second-th enumerated point a second, undisturbed read of the same reader follows (0: never)
	stride  int     // every stride-th point (1 = all)
}

func (pl c20tPlan) String() string {
	kinds := func(ops []c20Op) string {
		var s []string
		for _, o := range ops {
			s = append(s, o.Kind)
		}
		if len(s) == 0 {
			return "-"
		}
		return strings.Join(s, "+")
	}
	obj := "reader.Reader"
	if pl.mobile {
		obj = "mobile.Reader"
	}
	return fmt.Sprintf("%s chip=%d pace=%v before=%s during=%s second-read-every=%d stride=%d", obj, pl.variant%3, pl.pace, kinds(pl.pre), kinds(pl.timed), pl.second, pl.stride)
}

func c20tOpLabel(ops []c20Op) string {
	var s []string
	for _, o := range ops {
		s = append(s, o.Kind)
	}
	sort.Strings(s)
	return strings.Join(s, "+")
}

func c20TimedSetters(k *fw.K, round int, pl c20tPlan) {
	r := k.RNG
	p := c20tPerso(r, pl.variant, pl.pace)
	stored2, stored7 := p.DGFiles[2] != nil && c20tHas(p.SODDGs, 2), p.DGFiles[7] != nil && c20tHas(p.SODDGs, 7)
	if !stored2 || !stored7 {
		fw.Bug("c20 timed: the chip does not store and list both DG2 and DG7 (%v)", p.SODDGs)
	}
	all := append(append([]c20Op{}, pl.pre...), pl.timed...)
	known := map[string]bool{}
	for _, op := range all {
		if op.Kind == "challenge" {
			known[op.Bytes] = true
		}
	}
	cardSeed := r.Uint64()
	link := &c20tLink{}

	// --- what lone calls return: one fresh reader and one fresh chip per reachable configuration
	states := c20tReachable(all)
	lone := map[c20tState]string{}
	loneFiles := map[c20tState]map[string]bool{}
	basePoints := 0
	var baseTrace []string
	for i, s := range states {
		link.reset(p.NewCard(cardSeed))
		o := c20tNewObj(pl.mobile, p, link, known)
		c20tConfigure(o, s)
		res := o.read()
		if !res.ok {
			fw.LibFail("genuine-read-failed", "a lone %s.ReadDocument of the conforming chip fails under configuration %s:\n%s", o.name, s.String(), res.abs)
		}
		lone[s], loneFiles[s] = res.abs, res.files
		k.AddEvals(1)
		if i == 0 {
			// the abstraction must be free of session randomness: a second lone read is equal
			link.reset(p.NewCard(cardSeed + 1))
			o2 := c20tNewObj(pl.mobile, p, link, known)
			if res2 := o2.read(); res2.abs != res.abs {
				fw.Bug("c20 timed: two lone reads under the initial configuration differ:\n%s\n--\n%s", res.abs, res2.abs)
			}
			if !res.files["DG2"] || !res.files["DG7"] {
				fw.Bug("c20 timed: the lone read under the initial configuration does not obtain DG2 and DG7:\n%s", res.abs)
			}
		}
	}
	// points of the lone read under the configuration the timed read starts from
	{
		s0 := c20tState{}
		for _, op := range pl.pre {
			s0 = s0.apply(op)
		}
		link.reset(p.NewCard(cardSeed))
		o := c20tNewObj(pl.mobile, p, link, known)
		c20tConfigure(o, s0)
		o.read()
		basePoints, baseTrace = link.points, append([]string{}, link.trace...)
	}
	distinctLone := map[string]bool{}
	for _, a := range lone {
		distinctLone[a] = true
	}
	k.Max("max_timed_setters_points_in_a_read", int64(basePoints))
	k.Max("max_timed_setters_distinct_lone_results", int64(len(distinctLone)))
	if len(distinctLone) > 1 {
		k.Count("timed_setters_cases_where_configuration_changes_the_result")
	}
	name := "reader.Reader"
	if pl.mobile {
		name = "mobile.Reader"
	}
	label := c20tOpLabel(pl.timed)
	stride := pl.stride
	if stride < 1 {
		stride = 1
	}
	offset := 0
	if stride > 1 {
		offset = r.IntN(stride)
	}
	model := c20tModel(lone)
	sampled := false

	for kk := offset; kk <= basePoints; kk += stride {
		link.reset(p.NewCard(cardSeed + uint64(kk) + 2))
		o := c20tNewObj(pl.mobile, p, link, known)
		rec := newC20Rec(2 + len(pl.timed))
		// calls made before the read
		for _, op := range pl.pre {
			op := op
			rec.do(0, op, func() c20Out { c20tCall(o, op); return c20Out{} })
		}
		// setter threads, each released at its point: the first at kk, the following ones a
		// few points later
		var wg sync.WaitGroup
		var trigs []*c20tTrig
		at := kk
		var ats []int
		for i, op := range pl.timed {
			if i > 0 {
				at += r.IntN(4)
			}
			t := &c20tTrig{start: make(chan struct{})}
			gidCh := make(chan uint64, 1)
			wg.Add(1)
			go func(client int, op c20Op) {
				defer wg.Done()
				gidCh <- c20GID()
				<-t.start
				rec.perCli[client] = append(rec.perCli[client], c20tTimedCall(rec, client, op, o))
			}(2+i, op)
			t.gid = <-gidCh
			link.mu.Lock()
			link.triggers[at] = append(link.triggers[at], t)
			link.mu.Unlock()
			trigs = append(trigs, t)
			ats = append(ats, at)
		}
		var res c20tResult
		readOp := c20tDo(rec, 1, c20Op{Kind: "read"}, func() c20tOut { res = o.read(); return c20tOut{Abs: res.abs} })
		rec.perCli[1] = append(rec.perCli[1], readOp)
		inRead := 0
		link.mu.Lock()
		for _, t := range trigs {
			if t.fired {
				inRead++
				if t.seen == "returned" {
					k.Count("timed_setters_setter_returned_while_the_read_ran")
				} else {
					k.Count("timed_setters_setter_parked_until_the_read_ended")
				}
			} else {
				// the read ended before the point: the call is made after the read
				k.Count("timed_setters_released_after_the_read")
				t.fired = true
				close(t.start)
			}
		}
		link.mu.Unlock()
		wg.Wait()
		k.AddEvals(1)
		k.CountN("timed_setters_released_inside_a_read", int64(inRead))
		if link.overlap.Load() > 0 {
			k.Violation("concurrency:"+name+":timed:interleaved-sessions", "two calls talked to the chip at the same time", nil)
			return
		}
		var res2 c20tResult
		withSecond := pl.mobile && pl.second > 0 && (kk/stride)%pl.second == 0
		if withSecond {
			// an undisturbed second read of the same reader: every setter has returned by now,
			// so it runs under the final configuration
			link.reset(p.NewCard(cardSeed + uint64(kk) + 2))
			rd2 := c20tDo(rec, 1, c20Op{Kind: "read"}, func() c20tOut { res2 = o.read(); return c20tOut{Abs: res2.abs} })
			rec.perCli[1] = append(rec.perCli[1], rd2)
			k.AddEvals(1)
			k.Count("timed_setters_second_reads")
		}
		rec.merge()
		pointDesc := "after-the-read"
		if kk < len(baseTrace) {
			pointDesc = baseTrace[kk]
		}
		k.Distinct(fmt.Sprintf("timed|%s|%s|%d", name, label, kk))
		if strings.HasPrefix(pointDesc, "status:") {
			k.Count("timed_setters_points_status_callback")
		} else if kk < len(baseTrace) {
			k.Count("timed_setters_points_transceiver")
		}
		k.Count("timed_setters_reads_" + name)
		for _, op := range pl.timed {
			k.Count("timed_setters_calls_" + name + "_" + op.Kind)
		}
		if res.files["DG2"] && res.files["DG7"] {
			k.Count("timed_setters_reads_with_both_image_dgs")
		} else if !res.files["DG2"] && !res.files["DG7"] {
			k.Count("timed_setters_reads_with_neither_image_dg")
		}
		verdict, _ := porcupine.CheckOperationsVerbose(model, rec.ops, 60*time.Second)
		if verdict == porcupine.Unknown {
			k.Inconclusive("linearizability checker timed out on a timed-setter history")
			continue
		}
		if verdict == porcupine.Ok {
			k.Count("timed_setters_histories_linearizable")
			if !sampled && inRead > 0 && kk > basePoints/2 {
				sampled = true
				k.Sample("timed-setters", map[string]any{"plan": pl.String(), "point": kk, "point_desc": pointDesc, "points_in_lone_read": basePoints, "reachable_configurations": len(states), "setter_thread": trigs[0].seen, "sod_lists": p.SODDGs})
			}
			continue
		}
		// --- no sequential order of the calls explains what the read returned
		var lines []string
		ops := append([]porcupine.Operation{}, rec.ops...)
		sort.Slice(ops, func(i, j int) bool { return ops[i].Call < ops[j].Call })
		for _, o := range ops {
			lines = append(lines, fmt.Sprintf("client %d [%d,%d] %+v", o.ClientId, o.Call, o.Return, o.Input))
		}
		what := "result-of-no-configuration"
		bad := res
		if withSecond && res2.abs != "" {
			// which of the two reads is the unexplained one
			if _, ok := c20tMatches(lone, res.abs); ok {
				if _, ok2 := c20tMatches(lone, res2.abs); !ok2 {
					bad = res2
				}
			}
		}
		matches, ok := c20tMatches(lone, bad.abs)
		if ok {
			what = "result-contradicts-call-order"
		} else if bad.files["DG2"] != bad.files["DG7"] {
			what = "image-dgs-half-skipped"
			if bad.files["DG2"] {
				what += ":dg2-read-dg7-skipped"
			} else {
				what += ":dg2-skipped-dg7-read"
			}
		}
		var loneList []string
		for _, s := range states {
			loneList = append(loneList, s.String()+" => "+lone[s])
		}
		k.Violation(fmt.Sprintf("concurrency:%s:timed:%s:%s", name, label, what),
			fmt.Sprintf("%s.ReadDocument with %s called from another thread when the read reached point %d (%s): the result equals the result of a lone ReadDocument under no configuration that a sequential order of the calls produces", name, label, kk, pointDesc),
			map[string]any{"plan": pl.String(), "released_at_points": ats, "point": pointDesc, "sod_lists": p.SODDGs, "result": strings.Split(bad.abs, "\n"), "equals_lone_result_of": matches, "lone_results": loneList, "history": lines,
				"setter_threads": func() (s []string) {
					for _, t := range trigs {
						s = append(s, t.seen)
					}
					return
				}()})
		return
	}
	k.Count("timed_setters_cases_ok")
}

func c20tHas(l []int, n int) bool {
	for _, v := range l {
		if v == n {
			return true
		}
	}
	return false
}

func c20tMatches(lone map[c20tState]string, abs string) ([]string, bool) {
	var m []string
	for s, a := range lone {
		if a == abs {
			m = append(m, s.String())
		}
	}
	sort.Strings(m)
	return m, len(m) > 0
}

// call/return stamps as c20Rec.do takes them (monotonic clock, no synchronisation)
func c20tDo(r *c20Rec, client int, in c20Op, f func() c20tOut) porcupine.Operation {
	call := int64(time.Since(r.t0))
	out := f()
	ret := int64(time.Since(r.t0))
	if ret <= call {
		ret = call + 1
	}
	return porcupine.Operation{ClientId: client, Input: in, Call: call, Output: out, Return: ret}
}

func c20tTimedCall(r *c20Rec, client int, op c20Op, o *c20tObj) porcupine.Operation {
	return c20tDo(r, client, op, func() c20tOut { c20tCall(o, op); return c20tOut{} })
}

// ---------------------------------------------------------------------------------------
// the plans: a pure function of (seed, tier)

func c20tPlans(c *fw.Ctx) []c20tPlan {
	prng := c.PlanRNG("c20-timed")
	ch := func() c20Op { return c20Op{Kind: "challenge", Bytes: fmt.Sprintf("%x", randBytes(prng, 8))} }
	skipI, skipP := c20Op{Kind: "skipimages"}, c20Op{Kind: "skippace"}
	maxle := func() c20Op { return c20Op{Kind: "maxle", Val: []int{48, 64, 100, 128, 200}[prng.IntN(5)]} }
	v := prng.IntN(3)
	// quick: the image setter at every point for both kinds of reader, the other setters at
	// every second / third point (the offset is drawn per case); thorough: every point
	s2, s3 := c.Pick(2, 1), c.Pick(3, 1)
	plans := []c20tPlan{
		// reader.Reader
		{variant: v, timed: []c20Op{skipI}},
		{variant: v + 1, timed: []c20Op{skipI}, pre: []c20Op{ch()}},
		{variant: v + 2, timed: []c20Op{ch()}, stride: s2},
		{variant: v, pace: true, timed: []c20Op{skipP}, stride: s3},
		{variant: v + 1, timed: []c20Op{ch()}, pre: []c20Op{ch()}, stride: s3},
		{variant: v + 2, timed: []c20Op{skipI, ch()}, stride: s2},
		// mobile.Reader
		{mobile: true, variant: v + 2, timed: []c20Op{skipI}, second: 4},
		{mobile: true, variant: v, timed: []c20Op{maxle()}, stride: s3, second: 2},
		{mobile: true, variant: v + 1, pace: true, timed: []c20Op{skipP}, stride: s3, second: 2},
		{mobile: true, variant: v + 1, timed: []c20Op{ch()}, pre: []c20Op{maxle()}, stride: c.Pick(4, 1), second: 3},
		{mobile: true, variant: v, timed: []c20Op{maxle(), skipI}, stride: s3},
	}
	// thorough: drawn plans
	for i := 0; i < c.Pick(0, 48); i++ {
		pl := c20tPlan{mobile: prng.IntN(2) == 0, variant: prng.IntN(3), pace: prng.IntN(4) == 0}
		draw := func() c20Op {
			n := 3
			if pl.mobile {
				n = 4
			}
			switch prng.IntN(n) {
			case 0:
				return skipI
			case 1:
				pl.pace = true
				return skipP
			case 2:
				return ch()
			}
			return maxle()
		}
		for j := prng.IntN(3); j > 0; j-- {
			pl.pre = append(pl.pre, draw())
		}
		pl.timed = append(pl.timed, draw())
		if prng.IntN(2) == 0 {
			pl.timed = append(pl.timed, draw())
		}
		if len(pl.pre) == 0 && prng.IntN(3) == 0 {
			pl.timed = append(pl.timed, draw())
		}
		// SkipImages is among the timed setters of at least every second drawn plan
		if i%2 == 0 {
			has := false
			for _, o := range pl.timed {
				has = has || o.Kind == "skipimages"
			}
			if !has {
				pl.timed[0] = skipI
			}
		}
		if pl.mobile && prng.IntN(2) == 0 {
			pl.second = 1 + prng.IntN(3)
		}
		plans = append(plans, pl)
	}
	return plans
}
