package checks

import (
	"fmt"
	"math/big"
	mrand "math/rand/v2"
	"strings"

	"github.com/gmrtd/gmrtd/chipauth"
	"github.com/gmrtd/gmrtd/document"
	"github.com/gmrtd/gmrtd/iso7816"

	"verifharness/chipsim"
	"verifharness/der"
	"verifharness/ecref"
	"verifharness/fw"
	"verifharness/issuer"
	"verifharness/symref"
)

// C06 - chip authentication succeeds only with the holder of the certified key.

func init() {
	register(&fw.Spec{
		ID:    "C06",
		Level: "exploration",
		Rule: "positive case = one chipauth.DoChipAuth run (inside an existing SM session) against the simulated chip that holds the DG14 private key, over curve (11 parameter sets; named, explicit, explicit with seed) x suite (3DES, AES-128/192/256) x key-id arrangement (none; id in info and key; two keys with the info selecting the second; info missing so the suite is inferred -> MSE:Set KAT) x terminal ephemeral key (deterministic per case; plus re-personalised static keys that make the shared x-coordinate start with a zero octet); afterwards a file is read under the new keys; " +
			"further arrangements: 2..4 ChipAuthenticationInfos in DG14 (every ordered selection of distinct suites, repeated suites with different keys; one key for all, a key per info, keys shared by some; key identifiers of 1..3 octets or left out; SET in written order, DER order, shuffled; optional finite-field DH entries) against a chip that binds each key to the suites it is announced with; " +
			"state of the channel when CA starts: session on both sides, no session on a chip without access control (success demanded), no session on a locked chip / session only on the chip (only 'no false success' demanded); a reported success needs a key agreement that reached the chip; " +
			"the same through reader.ReadDocument (several infos inside a BAC/PACE session; chip without access control; copied files on a chip whose BAC/PACE fails) for the key holder and every applicable impostor strategy; " +
			"impostor case = chip without the private key using one strategy (old session keys, unprotected status, random MAC, replay, keys from a random secret, keys from another point, protected error status, refusal of everything / of the CA commands); oracle: Success only if the chip used the private key; non-trivial = every run; distinct = configuration x strategy x session randomness",
		MinEvaluations: 300,
		Assumptions: []string{
			"conforming chip half written from ICAO 9303-11 6.2 / TR-03110 (CA version 1 over ECDH; new SM keys after the key agreement, counter restarted)",
			"a chip without access control offers chip authentication in the clear and starts secure messaging with it (9303-11 6.2); a chip whose access condition is not satisfied may refuse it",
			"with several chip authentication keys every key and every ChipAuthenticationInfo carries the key identifier (ICAO 9303-11 9.2: keyId MUST be used if the chip provides multiple public keys for chip authentication); an info may omit it when the chip has one key",
			"DG14 keys use named or explicit X9.62 parameters (explicit with cofactor); the BSI standardised-domain-parameter AlgorithmIdentifier is only generated for CardSecurity (PACE-CAM)",
		},
		Run: runC06,
	})
}

type c06Cfg struct {
	curve    int // index into ecref.All()
	suite    symref.Suite
	form     int // 0 named, 1 explicit, 2 explicit+seed
	arrange  int // 0 no ids, 1 id in both, 2 two keys select second, 3 info missing (inferred)
	grind    bool
	strategy string
	// arrange 4: DG14 lists several ChipAuthenticationInfos (c06_shapes.go); suite is unused
	multi *c06Multi
	// state of the channel when chip authentication starts (c06Chan*; 0 = a session exists)
	channel int
	// arrange 3 only: a further key entry FOLLOWS the chip's key in DG14 (still no info):
	// 1 = a finite-field DH key, 2 = an EC key on another curve that the chip does not hold.
	// The documented inference takes the FIRST key.
	extraKey int
}

func (c c06Cfg) String() string {
	s := fmt.Sprintf("curve=%s suite=%v form=%d arrange=%d grind=%v strategy=%s", ecref.All()[c.curve].Name, c.suite, c.form, c.arrange, c.grind, c.strategy)
	if c.extraKey != 0 {
		s += fmt.Sprintf(" extra-key-entry-after-the-chips-key=%d", c.extraKey)
	}
	if c.multi != nil {
		s += " multi=" + c.multi.String()
	}
	if c.channel != c06ChanSession {
		s += " channel=" + c06ChanNames[c.channel]
	}
	return s
}

type c06World struct {
	card  *chipsim.Card
	nfc   *iso7816.NfcSession
	doc   *document.Document
	dg14  []byte
	oldSM *chipsim.SM // copy of the pre-CA session (for impostor strategies)
	caKey *chipsim.CAKey
	curve *ecref.Curve
	shape string // arrange 4: where the strongest announced suite stands, and how keys are shared
}

func c06BuildDG14(cfg c06Cfg, keys []*issuer.Key, ids []int, infoKeyID int) []byte {
	var infos [][]byte
	for i, k := range keys {
		infos = append(infos, issuer.ChipAuthPublicKeyInfo(k.SPKI(), ids[i]))
	}
	if cfg.arrange != 3 {
		infos = append(infos, issuer.ChipAuthInfo(int(cfg.suite), infoKeyID))
	}
	if cfg.arrange == 3 && cfg.extraKey != 0 {
		// written order matters here: the chip's key first, the further entry last
		var extra []byte
		if cfg.extraKey == 1 {
			// deterministic finite-field DH public key entry (id-PK-DH), no key identifier
			p := make([]byte, 128)
			for i := range p {
				p[i] = byte(0x3B + 7*i)
			}
			p[0] |= 0x80
			p[127] |= 1
			num := func(b []byte) []byte { return der.Int(new(big.Int).SetBytes(b)) }
			spki := der.Seq(der.Seq(der.OID(1, 2, 840, 10046, 2, 1), der.Seq(num(p), der.Int64(2), num(p[:20]))), der.BitString(num(p[1:])))
			extra = der.Seq(der.OID(0, 4, 0, 127, 0, 7, 2, 2, 1, 1), spki)
		} else {
			other := ecref.All()[(cfg.curve+3)%len(ecref.All())]
			d := new(big.Int).SetBytes([]byte{0x5A, 0x17, 0x33, 0x91, 0x02, 0x7F, 0x11, 0x45})
			ok := &issuer.Key{EC: &issuer.ECKey{Curve: other, D: d, Q: other.Mul(d, other.G())}}
			extra = issuer.ChipAuthPublicKeyInfo(ok.SPKI(), -1)
		}
		return der.T(0x6E, der.SetUnsorted(append(infos, extra)...))
	}
	return der.T(0x6E, der.Set(infos...))
}

func c06NewWorld(k *fw.K, cfg c06Cfg, static *big.Int) *c06World {
	r := k.RNG
	w := &c06World{curve: ecref.All()[cfg.curve]}
	mk := func(d *big.Int) *issuer.Key {
		var key *issuer.Key
		if d == nil {
			key = issuer.NewECKey(r, w.curve)
		} else {
			key = &issuer.Key{EC: &issuer.ECKey{Curve: w.curve, D: d, Q: w.curve.Mul(d, w.curve.G())}}
		}
		key.Explicit = cfg.form >= 1
		key.WithSeed = cfg.form == 2
		return key
	}
	var keys []*issuer.Key
	var ids []int
	var curves []*ecref.Curve
	var announced []chipsim.CAAnnounce
	infoKeyID := -1
	target := 0
	switch cfg.arrange {
	case 4:
		m := cfg.multi
		for j := 0; j < m.nkeys; j++ {
			cv := ecref.All()[m.curves[j]]
			var key *issuer.Key
			if static != nil && j == 0 {
				key = mk(static)
			} else {
				key = issuer.NewECKey(r, cv)
				key.Explicit = cfg.form >= 1
				key.WithSeed = cfg.form == 2
			}
			keys, ids, curves = append(keys, key), append(ids, m.keyIDs[j]), append(curves, cv)
		}
		w.dg14, w.shape = m.build(r, keys)
		for _, in := range m.infos {
			id := -1
			if in.withID {
				id = m.keyIDs[in.key]
			}
			announced = append(announced, chipsim.CAAnnounce{Suite: in.suite, KeyID: id})
		}
	case 0, 3:
		keys, ids = []*issuer.Key{mk(static)}, []int{-1}
	case 1:
		id := 1 + r.IntN(200)
		keys, ids, infoKeyID = []*issuer.Key{mk(static)}, []int{id}, id
	case 2:
		id1, id2 := 1+r.IntN(100), 101+r.IntN(100)
		keys, ids, infoKeyID, target = []*issuer.Key{mk(nil), mk(static)}, []int{id1, id2}, id2, 1
	}
	if cfg.arrange != 4 {
		w.dg14 = c06BuildDG14(cfg, keys, ids, infoKeyID)
	}
	w.card = chipsim.NewCard()
	w.card.AuthRequired = true
	w.card.Authed = true
	// the chip binds every key to the suites it announces it with (arrange 4 only)
	ca := &chipsim.CAState{Announced: announced}
	for i, key := range keys {
		priv := key.EC.D
		if cfg.strategy != "" {
			priv = nil // impostor: public key copied from the genuine document, no private key
		}
		cv := w.curve
		if curves != nil {
			cv = curves[i]
		}
		ca.Keys = append(ca.Keys, chipsim.CAKey{KeyID: ids[i], Curve: cv, Priv: priv, Pub: key.EC.Q})
	}
	w.caKey = &ca.Keys[target]
	w.card.CA = ca
	w.card.LDS[chipsim.FidDG(14)] = w.dg14
	w.card.LDS[chipsim.FidCOM] = []byte{0x60, 0x0A, 0x5F, 0x01, 0x04, 0x30, 0x31, 0x30, 0x37, 0x5C, 0x01, 0x6E}
	tr := &funcTransceiver{f: w.card.Transceive}
	w.nfc = iso7816.NewNfcSession(tr)
	switch cfg.channel {
	case c06ChanSession, c06ChanChipOnly:
		// an existing session (as after BAC / PACE): 3DES or AES depending on the case
		pre := symref.AllSuites[r.IntN(4)]
		kenc, kmac := randKey(r, pre), randKey(r, pre)
		ssc := startSSC(r, pre, r.IntN(2))
		w.card.SM = chipsim.NewSM(pre, kenc, kmac, ssc)
		w.nfc.SetSecureMessaging(newLibSM(k, pre, kenc, kmac, ssc))
		if sel, err := w.nfc.SelectAid(chipsim.LDS1AID); err != nil || !sel {
			fw.LibFail("select-aid-failed", "protected SELECT AID on the conforming simulated chip failed: %v", err)
		}
		if cfg.channel == c06ChanChipOnly {
			// the terminal lost (or never completed) its half of the session
			w.nfc = iso7816.NewNfcSession(tr)
		}
	default:
		// no session at all when chip authentication starts
		w.card.Authed = false
		switch cfg.channel {
		case c06ChanOpen:
			w.card.AuthRequired = false // chip without access control
		case c06ChanLockedRefusing:
			ca.RequireAccess = true
		}
		if sel, err := w.nfc.SelectAid(chipsim.LDS1AID); err != nil || !sel {
			fw.LibFail("select-aid-failed", "plain SELECT AID on the conforming simulated chip failed: %v", err)
		}
	}
	w.doc = &document.Document{}
	dg14, err := document.NewDG14(w.dg14)
	if err != nil || dg14 == nil {
		k.Violation("ca:dg14-rejected", fmt.Sprintf("NewDG14 rejects a well-formed DG14: %v", err), map[string]any{"dg14": fmt.Sprintf("%x", w.dg14), "config": cfg.String()})
		return nil
	}
	w.doc.Mf.Lds1.Dg14 = dg14
	return w
}

func (w *c06World) detail(cfg c06Cfg, err error) map[string]any {
	ca := w.card.CA
	return map[string]any{"config": cfg.String(), "dg14": hexCap(w.dg14, 900), "err": fmt.Sprint(err), "chip_used_private_key": ca.UsedPrivateKey, "chip_runs": ca.Runs,
		"chip_shared_secret": fmt.Sprintf("%x", ca.K), "chip_ksenc": fmt.Sprintf("%x", ca.KSEnc), "via_kat": ca.ViaKAT, "terminal_public": fmt.Sprintf("%x", ca.LastPKIFD)}
}

func c06Positive(k *fw.K, cfg c06Cfg, idx int) {
	label := fmt.Sprintf("C06-term/%d", idx)
	var static *big.Int
	if cfg.grind {
		// learn the terminal's ephemeral public key for this seed, then choose the static key
		fw.SeedCryptoRand(int64(idx)+1000003, label)
		w0 := c06NewWorld(k, cfg, nil)
		if w0 == nil {
			return
		}
		chipauth.NewChipAuth(w0.nfc, w0.doc).DoChipAuth()
		if w0.card.CA.LastPKIFD == nil {
			k.Count("grind_probe_failed")
			return
		}
		cv := w0.curve
		pk, err := cv.Decode(w0.card.CA.LastPKIFD)
		if err != nil {
			fw.LibFail("ca-terminal-key-undecodable", "the terminal sent an ephemeral public key that is not a point of the curve")
		}
		d := new(big.Int).SetBytes(randBytes(k.RNG, cv.ByteLen-1))
		d.Add(d, big.NewInt(2))
		pt := cv.Mul(d, pk)
		for i := 0; ; i++ {
			if !pt.Inf && cv.FE2OS(pt.X)[0] == 0 {
				break
			}
			pt = cv.AddAffine(pt, pk)
			d.Add(d, big.NewInt(1))
			if i > 200000 {
				fw.Bug("grinding did not terminate")
			}
		}
		static = d
	}
	fw.SeedCryptoRand(int64(idx)+1000003, label)
	// world construction must consume the case PRNG identically in both runs
	if cfg.grind {
		k.RNG = fw.NewRNG(int64(idx), "c06-regrind")
	}
	w := c06NewWorld(k, cfg, static)
	if w == nil {
		return
	}
	k.Nontrivial(cfg.String() + fmt.Sprintf("|%d", idx))
	k.Count("positive_runs")
	res, err := chipauth.NewChipAuth(w.nfc, w.doc).DoChipAuth()
	ca := w.card.CA
	lz := ""
	if len(ca.K) > 0 && ca.K[0] == 0 {
		lz = ":shared-x-leading-zero"
		k.Count("positive_shared_x_leading_zero")
	}
	if cfg.grind && lz == "" {
		k.Count("grind_missed_same_ephemeral_key")
	}
	arr := fmt.Sprintf("arrange%d", cfg.arrange)
	if cfg.arrange == 4 {
		arr = "multi-info:" + w.shape
		k.Count("positive_multi_info_" + w.shape)
		k.Count("positive_multi_info_layout_" + c06LayoutNames[cfg.multi.layout] + "_" + strings.SplitN(w.shape, ":", 2)[0])
		if cfg.multi.dh {
			k.Count("positive_multi_info_with_dh_entries")
		}
	}
	chn := c06ChanNames[cfg.channel]
	if cfg.channel != c06ChanSession {
		arr += ":" + chn
		k.Count("positive_channel_" + chn)
	}
	agreements := c06KeyAgreementsSeen(w.card)
	if err != nil || res == nil || !res.Success {
		if !c06ChanDemandsSuccess(cfg.channel) {
			// the chip's access condition is not satisfied (or the two halves of the channel
			// disagree): nothing is demanded of the genuine chip, only "no false success"
			k.Count("positive_not_demanded_failed_" + chn)
			return
		}
		phase := "before-key-agreement"
		if ca.Runs > 0 {
			phase = "after-key-agreement"
		}
		k.Violation(fmt.Sprintf("ca:genuine-failed:%s:%s%s", phase, arr, lz), fmt.Sprintf("chip authentication against the chip holding the DG14 key failed: %v", err), w.detail(cfg, err))
		return
	}
	if agreements == 0 {
		k.Violation("ca:success-without-key-agreement:"+chn, "DoChipAuth reports success but the chip never received MSE:Set KAT / GENERAL AUTHENTICATE", w.detail(cfg, err))
		return
	}
	if !ca.UsedPrivateKey || !w.card.CADone {
		k.Violation("ca:success-without-private-key-use", "DoChipAuth reports success but the chip never used the private key", w.detail(cfg, err))
		return
	}
	if cfg.arrange == 2 && ca.K != nil {
		// the chip used the key selected by the reference; make sure that was the second key
		k.Count("positive_second_key_selected")
	}
	if cfg.arrange == 3 != ca.ViaKAT && cfg.suite == symref.TDES {
		k.Count("positive_path_differs_from_expectation")
	}
	sm := w.nfc.SM()
	if sm == nil || !bytesEq(sm.KsEnc(), ca.KSEnc) {
		k.Violation("ca:ksenc-mismatch"+lz, "terminal session key differs from the chip's after chip authentication", w.detail(cfg, err))
		return
	}
	// continued reading under the new keys, counters in lockstep (restarted at zero)
	data, rerr := w.nfc.ReadFile(chipsim.FidDG(14))
	if rerr != nil || !bytesEq(data, w.dg14) {
		k.Violation("ca:traffic-after-ca-failed"+lz, fmt.Sprintf("reading DG14 under the new session keys failed: %v", rerr), w.detail(cfg, rerr))
		return
	}
	if w.card.SM == nil || w.card.SMAborted != 0 || !bytesEq(sm.SSC(), w.card.SM.SSC) {
		k.Violation("ca:lockstep-after-ca", "counters differ after chip authentication", w.detail(cfg, err))
		return
	}
	if res.Evidence == nil || !bytesEq(res.Evidence.TermPubKey, ca.LastPKIFD) {
		k.Violation("ca:evidence-terminal-key", "captured evidence does not hold the terminal key that was sent", w.detail(cfg, err))
		return
	}
	k.Count("positive_ok")
	k.Count(fmt.Sprintf("positive_ok_arrange%d", cfg.arrange))
	if cfg.arrange == 4 {
		k.Count("positive_ok_multi_info_" + w.shape)
		k.Count(fmt.Sprintf("positive_ok_multi_info_chip_ran_%v", ca.Suite))
		if ca.LastKey != nil && ca.LastKey != &ca.Keys[0] {
			k.Count("positive_ok_multi_info_other_than_first_key")
		}
	}
	if cfg.channel != c06ChanSession {
		k.Count("positive_ok_channel_" + chn)
	}
	if ca.ViaKAT {
		k.Count("positive_ok_via_mse_set_kat")
	}
	k.Sample("positive", map[string]any{"config": cfg.String(), "shared_secret": fmt.Sprintf("%x", ca.K)})
}

var c06Strategies = []string{"empty-mac", "truncated-mac", "zero-mac", "old-session-keys", "unprotected-9000", "unprotected-6a82", "random-mac", "replay-earlier-9000", "keys-from-random-secret", "keys-from-other-point", "keys-from-terminal-key-x", "protected-6a82-fake-keys", "protected-6283-fake-keys", "refuse"}

// c06InstallImpostor turns the card into a chip that lacks every chip authentication private
// key and follows one strategy. The session the chip holds at this moment (nil: none) is the
// "old session" of the strategies that need one.
func c06InstallImpostor(card *chipsim.Card, strategy string, r *mrand.Rand) {
	ca := card.CA
	for i := range ca.Keys {
		ca.Keys[i].Priv = nil
	}
	oldSM := card.SM   // pointer to the pre-CA session state (chip side)
	var earlier []byte // an earlier genuine protected 9000 of this session
	var fake *chipsim.SM
	switch strategy {
	case "refuse", "refuse-everything-6982", "refuse-ca-commands-6982":
		// no FakeSecret: the chip answers 6300 to the key agreement
	case "keys-from-other-point":
		ca.FakeSecret = func(key *chipsim.CAKey, pk ecref.Point) []byte {
			cv := key.Curve
			pt := cv.Mul(new(big.Int).SetBytes(randBytes(r, cv.ByteLen-1)), pk)
			return cv.FE2OS(pt.X)
		}
	case "keys-from-terminal-key-x":
		ca.FakeSecret = func(key *chipsim.CAKey, pk ecref.Point) []byte { return key.Curve.FE2OS(pk.X) }
	default:
		ca.FakeSecret = func(key *chipsim.CAKey, pk ecref.Point) []byte { return randBytes(r, key.Curve.ByteLen) }
	}
	caDone := false
	runs := ca.Runs
	card.Hook = func(ev *chipsim.Event) []byte {
		if strategy == "refuse-everything-6982" {
			return []byte{0x69, 0x82}
		}
		if strategy == "refuse-ca-commands-6982" && ev.Cmd != nil && !ev.Protected && (ev.Cmd.INS == 0x86 || (ev.Cmd.INS == 0x22 && ev.Cmd.P1 == 0x41)) {
			return []byte{0x69, 0x82}
		}
		if ev.Cmd == nil {
			// after the impostor switched to fake keys the probe cannot be authenticated by
			// the chip; it answers anyway, according to its strategy
			if !caDone {
				return nil
			}
		}
		if ev.Cmd != nil && (ev.Cmd.INS == 0x22 || ev.Cmd.INS == 0x86) {
			if ev.SW == 0x9000 && ev.Protected {
				earlier = append([]byte{}, ev.Resp...)
			}
			// the command that ran the chip authentication key agreement (GENERAL AUTHENTICATE
			// is also a PACE command: go by the chip's own count)
			if ca.Runs > runs {
				runs = ca.Runs
				if ev.SW == 0x9000 {
					caDone = true
					if ca.KSEnc != nil {
						fake = chipsim.NewSM(ca.Suite, ca.KSEnc, ca.KSMac, nil)
					}
				}
			}
			return nil
		}
		if !caDone {
			return nil
		}
		// this is the probe (first command after the key agreement)
		switch strategy {
		case "old-session-keys":
			if oldSM == nil {
				return []byte{0x69, 0x88}
			}
			o := oldSM.Clone()
			chipsim.IncSSC(o.SSC) // the command
			return o.Wrap(nil, 0x9000)
		case "unprotected-9000":
			return []byte{0x90, 0x00}
		case "unprotected-6a82":
			return []byte{0x6A, 0x82}
		case "empty-mac":
			return []byte{0x99, 0x02, 0x90, 0x00, 0x8E, 0x00, 0x90, 0x00}
		case "truncated-mac":
			return append(append([]byte{0x99, 0x02, 0x90, 0x00, 0x8E, 0x04}, randBytes(r, 4)...), 0x90, 0x00)
		case "zero-mac":
			return append(append([]byte{0x99, 0x02, 0x90, 0x00, 0x8E, 0x08}, make([]byte, 8)...), 0x90, 0x00)
		case "random-mac":
			return append(append([]byte{0x99, 0x02, 0x90, 0x00, 0x8E, 0x08}, randBytes(r, 8)...), 0x90, 0x00)
		case "replay-earlier-9000":
			if earlier != nil {
				return append([]byte{}, earlier...)
			}
			return []byte{0x69, 0x88}
		case "keys-from-random-secret", "keys-from-other-point", "keys-from-terminal-key-x":
			f := fake.Clone()
			chipsim.IncSSC(f.SSC)
			return f.Wrap(nil, 0x9000)
		case "protected-6a82-fake-keys":
			f := fake.Clone()
			chipsim.IncSSC(f.SSC)
			return f.Wrap(nil, 0x6A82)
		case "protected-6283-fake-keys":
			f := fake.Clone()
			chipsim.IncSSC(f.SSC)
			return f.Wrap(nil, 0x6283)
		}
		return nil
	}
}

func c06Impostor(k *fw.K, cfg c06Cfg, idx int) {
	w := c06NewWorld(k, cfg, nil)
	if w == nil {
		return
	}
	ca := w.card.CA
	c06InstallImpostor(w.card, cfg.strategy, k.RNG)
	k.Nontrivial(cfg.String() + fmt.Sprintf("|%d", idx))
	k.Count("impostor_" + cfg.strategy)
	chn := ""
	if cfg.channel != c06ChanSession {
		chn = c06ChanNames[cfg.channel] + ":"
		k.Count("impostor_channel_" + c06ChanNames[cfg.channel])
	}
	if cfg.arrange == 4 {
		k.Count("impostor_multi_info")
	}
	res, err := chipauth.NewChipAuth(w.nfc, w.doc).DoChipAuth()
	// a Success flag is a claim whatever the error value says
	if res != nil && res.Success {
		if c06KeyAgreementsSeen(w.card) == 0 {
			k.Count("impostor_accepted_without_any_key_agreement")
		}
		k.Violation("ca:impostor-accepted:"+chn+cfg.strategy, fmt.Sprintf("chip authentication reported successful against a chip without the private key (strategy %s, %d key agreement commands reached the chip)", cfg.strategy, c06KeyAgreementsSeen(w.card)), w.detail(cfg, err))
		return
	}
	if ca.UsedPrivateKey {
		fw.Bug("impostor chip used a private key")
	}
	k.Count("impostor_rejected")
}

func runC06(c *fw.Ctx) {
	if err := symref.SelfTest(); err != nil {
		fw.Bug("symref self-test: %v", err)
	}
	if err := ecref.SelfTest(); err != nil {
		fw.Bug("ecref self-test: %v", err)
	}
	var pos []c06Cfg
	sessions := c.Pick(2, 200)
	for cv := 0; cv < 11; cv++ {
		for _, s := range symref.AllSuites {
			for arr := 0; arr < 4; arr++ {
				if arr == 3 && s != symref.TDES {
					// without a ChipAuthenticationInfo the suite cannot be known; the documented
					// inference is 3DES, so a chip meaning AES is outside the positive oracle
					continue
				}
				for ss := 0; ss < sessions; ss++ {
					pos = append(pos, c06Cfg{curve: cv, suite: s, arrange: arr, form: (cv + int(s) + arr + ss) % 3})
				}
				if arr == 3 {
					// the info is missing AND further key entries follow the chip's key
					for ek := 1; ek <= 2; ek++ {
						pos = append(pos, c06Cfg{curve: cv, suite: s, arrange: 3, form: (cv + ek) % 3, extraKey: ek})
					}
				}
			}
		}
		// leading-zero shared secrets
		for g := 0; g < c.Pick(2, 100); g++ {
			pos = append(pos, c06Cfg{curve: cv, suite: symref.AllSuites[(cv+g)%4], arrange: g % 3, form: g % 3, grind: true})
		}
	}
	c.Cases(len(pos), func(i int) string { return fmt.Sprintf("positive|%s #%d", pos[i], i) }, func(i int, k *fw.K) { c06Positive(k, pos[i], i) })

	var neg []c06Cfg
	prng := c.PlanRNG("c06-neg")
	for cv := 0; cv < 11; cv++ {
		for si, st := range c06Strategies {
			for _, s := range symref.AllSuites {
				if c.Quick() && (cv+si+int(s))%2 != 0 {
					continue
				}
				arr := prng.IntN(4)
				if arr == 3 && s != symref.TDES {
					arr = prng.IntN(3)
				}
				neg = append(neg, c06Cfg{curve: cv, suite: s, arrange: arr, form: prng.IntN(3), strategy: st})
			}
		}
	}
	c.Cases(len(neg), func(i int) string { return fmt.Sprintf("impostor|%s #%d", neg[i], i) }, func(i int, k *fw.K) { c06Impostor(k, neg[i], i) })

	// several ChipAuthenticationInfos; state of the channel when chip authentication starts
	pos2, neg2 := c06ShapePlans(c)
	c.Cases(len(pos2), func(i int) string { return fmt.Sprintf("positive-shapes|%s #%d", pos2[i], i) }, func(i int, k *fw.K) { c06Positive(k, pos2[i], 500000+i) })
	c.Cases(len(neg2), func(i int) string { return fmt.Sprintf("impostor-shapes|%s #%d", neg2[i], i) }, func(i int, k *fw.K) { c06Impostor(k, neg2[i], 500000+i) })

	// the same through reader.ReadDocument: several infos; access control absent or failed
	rd := c06ReaderPlans(c)
	c.Cases(len(rd), func(i int) string { return fmt.Sprintf("reader|%s #%d", rd[i], i) }, func(i int, k *fw.K) { c06Reader(k, rd[i], 700000+i) })
	_ = mrand.Uint32
}
