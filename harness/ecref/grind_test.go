package ecref

import (
	"math/big"
	"testing"
)

func TestStepNonceAgreesWithLadder(t *testing.T) {
	for _, c := range All() {
		nl := (c.N.BitLen() + 7) / 8
		lo, hi := PrefixRange([]byte{0x00}, nl)
		k, r, ok := c.StepNonce(big.NewInt(123456789), 20000, lo, hi)
		if !ok {
			t.Fatalf("%s: no nonce found", c.Name)
		}
		if r2 := c.RFromNonce(k); r2 == nil || r2.Cmp(r) != 0 {
			t.Fatalf("%s: stepping search and ladder disagree", c.Name)
		}
		if b := r.FillBytes(make([]byte, nl)); b[0] != 0 {
			t.Fatalf("%s: r does not start with 00: %x", c.Name, b)
		}
	}
	// wrap-around at the group order
	c := ByName("P-256")
	lo, hi := PrefixRange(nil, 32)
	k0 := new(big.Int).Sub(c.N, big.NewInt(1))
	k, r, ok := c.StepNonce(k0, 1, lo, hi)
	if !ok || k.Cmp(k0) != 0 || r.Cmp(c.RFromNonce(k0)) != 0 {
		t.Fatalf("first candidate must be k0")
	}
}
