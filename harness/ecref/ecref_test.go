package ecref

import (
	"crypto/sha256"
	"math/big"
	"testing"
)

func TestSelf(t *testing.T) {
	if err := SelfTest(); err != nil {
		t.Fatal(err)
	}
}

func TestECDSA(t *testing.T) {
	for _, c := range All() {
		d := new(big.Int).Rsh(c.N, 1)
		q := c.Mul(d, c.G())
		h := sha256.Sum256([]byte("abc"))
		r, s, ok := c.Sign(d, h[:], big.NewInt(987654321))
		if !ok || !c.Verify(q, h[:], r, s) {
			t.Fatalf("%s sign/verify", c.Name)
		}
		h[0] ^= 1
		if c.Verify(q, h[:], r, s) {
			t.Fatalf("%s verify accepts wrong hash", c.Name)
		}
	}
}

func BenchmarkMul512(b *testing.B) {
	c := ByName("brainpoolP512r1")
	k := new(big.Int).Rsh(c.N, 1)
	for i := 0; i < b.N; i++ {
		c.Mul(k, c.G())
	}
}
func BenchmarkMul256(b *testing.B) {
	c := ByName("brainpoolP256r1")
	k := new(big.Int).Rsh(c.N, 1)
	for i := 0; i < b.N; i++ {
		c.Mul(k, c.G())
	}
}
