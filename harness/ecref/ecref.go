// Package ecref is the harness's own elliptic-curve arithmetic (engine E1 of DESIGN.md):
// short-Weierstrass curves y^2 = x^3 + ax + b over prime fields with math/big, for the
// eleven ICAO 9303-11 standardised parameter sets (ids 8..18) plus helpers for ECDH,
// fixed-length field-element encoding (FE2OS) and ECDSA with caller-supplied nonces.
//
// Trusted data: the NIST curve constants from crypto/elliptic, P-192 typed from FIPS
// 186, and brainpool p / n / G from github.com/osanderson/brainpool; the brainpool a and
// b coefficients are derived from three points of the curve and validated by n*G = O.
// gmrtd packages are never imported.
package ecref

import (
	"crypto/elliptic"
	"errors"
	"fmt"
	"math/big"
	"sync"

	"github.com/osanderson/brainpool"
)

type Curve struct {
	Name    string
	ParamID int // ICAO 9303-11 standardised domain parameter id (8..18)
	P, A, B *big.Int
	Gx, Gy  *big.Int
	N       *big.Int
	H       int
	ByteLen int // octets of a field element
}

type Point struct {
	X, Y *big.Int
	Inf  bool
}

var Infinity = Point{Inf: true}

func (c *Curve) G() Point { return Point{X: new(big.Int).Set(c.Gx), Y: new(big.Int).Set(c.Gy)} }

func (p Point) Equal(q Point) bool {
	if p.Inf || q.Inf {
		return p.Inf == q.Inf
	}
	return p.X.Cmp(q.X) == 0 && p.Y.Cmp(q.Y) == 0
}

func (c *Curve) mod(x *big.Int) *big.Int {
	x.Mod(x, c.P)
	return x
}

// OnCurve reports whether p is a finite point satisfying the curve equation with
// coordinates in [0, p).
func (c *Curve) OnCurve(p Point) bool {
	if p.Inf || p.X == nil || p.Y == nil {
		return false
	}
	if p.X.Sign() < 0 || p.Y.Sign() < 0 || p.X.Cmp(c.P) >= 0 || p.Y.Cmp(c.P) >= 0 {
		return false
	}
	l := new(big.Int).Mul(p.Y, p.Y)
	c.mod(l)
	r := new(big.Int).Mul(p.X, p.X)
	r.Mul(r, p.X)
	ax := new(big.Int).Mul(c.A, p.X)
	r.Add(r, ax)
	r.Add(r, c.B)
	c.mod(r)
	return l.Cmp(r) == 0
}

// AddAffine is the textbook affine group law (used for self-tests and point stepping).
func (c *Curve) AddAffine(p, q Point) Point {
	if p.Inf {
		return q
	}
	if q.Inf {
		return p
	}
	var lam *big.Int
	if p.X.Cmp(q.X) == 0 {
		s := new(big.Int).Add(p.Y, q.Y)
		c.mod(s)
		if s.Sign() == 0 {
			return Infinity
		}
		// doubling
		num := new(big.Int).Mul(p.X, p.X)
		num.Mul(num, big.NewInt(3))
		num.Add(num, c.A)
		den := new(big.Int).Lsh(p.Y, 1)
		den.ModInverse(c.mod(den), c.P)
		lam = c.mod(num.Mul(num, den))
	} else {
		num := new(big.Int).Sub(q.Y, p.Y)
		den := new(big.Int).Sub(q.X, p.X)
		den.ModInverse(c.mod(den), c.P)
		lam = c.mod(num.Mul(c.mod(num), den))
	}
	x := new(big.Int).Mul(lam, lam)
	x.Sub(x, p.X)
	x.Sub(x, q.X)
	c.mod(x)
	y := new(big.Int).Sub(p.X, x)
	y.Mul(y, lam)
	y.Sub(y, p.Y)
	c.mod(y)
	return Point{X: x, Y: y}
}

func (c *Curve) Neg(p Point) Point {
	if p.Inf {
		return p
	}
	y := new(big.Int).Sub(c.P, p.Y)
	c.mod(y)
	return Point{X: new(big.Int).Set(p.X), Y: y}
}

// jacobian point
type jp struct{ x, y, z *big.Int }

func (c *Curve) jdouble(p jp) jp {
	if p.z.Sign() == 0 || p.y.Sign() == 0 {
		return jp{big.NewInt(1), big.NewInt(1), big.NewInt(0)}
	}
	y2 := c.mod(new(big.Int).Mul(p.y, p.y))
	s := c.mod(new(big.Int).Mul(p.x, y2))
	s.Lsh(s, 2)
	c.mod(s)
	z2 := c.mod(new(big.Int).Mul(p.z, p.z))
	z4 := c.mod(new(big.Int).Mul(z2, z2))
	m := new(big.Int).Mul(p.x, p.x)
	m.Mul(m, big.NewInt(3))
	m.Add(m, new(big.Int).Mul(c.A, z4))
	c.mod(m)
	x3 := new(big.Int).Mul(m, m)
	x3.Sub(x3, new(big.Int).Lsh(s, 1))
	c.mod(x3)
	y4 := c.mod(new(big.Int).Mul(y2, y2))
	y3 := new(big.Int).Sub(s, x3)
	y3.Mul(y3, m)
	y3.Sub(y3, new(big.Int).Lsh(y4, 3))
	c.mod(y3)
	z3 := new(big.Int).Mul(p.y, p.z)
	z3.Lsh(z3, 1)
	c.mod(z3)
	return jp{x3, y3, z3}
}

func (c *Curve) jadd(p, q jp) jp {
	if p.z.Sign() == 0 {
		return q
	}
	if q.z.Sign() == 0 {
		return p
	}
	z1z1 := c.mod(new(big.Int).Mul(p.z, p.z))
	z2z2 := c.mod(new(big.Int).Mul(q.z, q.z))
	u1 := c.mod(new(big.Int).Mul(p.x, z2z2))
	u2 := c.mod(new(big.Int).Mul(q.x, z1z1))
	s1 := c.mod(new(big.Int).Mul(p.y, c.mod(new(big.Int).Mul(q.z, z2z2))))
	s2 := c.mod(new(big.Int).Mul(q.y, c.mod(new(big.Int).Mul(p.z, z1z1))))
	if u1.Cmp(u2) == 0 {
		if s1.Cmp(s2) != 0 {
			return jp{big.NewInt(1), big.NewInt(1), big.NewInt(0)}
		}
		return c.jdouble(p)
	}
	h := c.mod(new(big.Int).Sub(u2, u1))
	r := c.mod(new(big.Int).Sub(s2, s1))
	h2 := c.mod(new(big.Int).Mul(h, h))
	h3 := c.mod(new(big.Int).Mul(h2, h))
	u1h2 := c.mod(new(big.Int).Mul(u1, h2))
	x3 := new(big.Int).Mul(r, r)
	x3.Sub(x3, h3)
	x3.Sub(x3, new(big.Int).Lsh(u1h2, 1))
	c.mod(x3)
	y3 := new(big.Int).Sub(u1h2, x3)
	y3.Mul(y3, r)
	y3.Sub(y3, new(big.Int).Mul(s1, h3))
	c.mod(y3)
	z3 := new(big.Int).Mul(h, p.z)
	z3.Mul(z3, q.z)
	c.mod(z3)
	return jp{x3, y3, z3}
}

func (c *Curve) toAffine(p jp) Point {
	if p.z.Sign() == 0 {
		return Infinity
	}
	zi := new(big.Int).ModInverse(p.z, c.P)
	zi2 := c.mod(new(big.Int).Mul(zi, zi))
	x := c.mod(new(big.Int).Mul(p.x, zi2))
	y := c.mod(new(big.Int).Mul(p.y, c.mod(new(big.Int).Mul(zi2, zi))))
	return Point{X: x, Y: y}
}

// Mul returns k*p (k taken as a non-negative integer, not reduced).
func (c *Curve) Mul(k *big.Int, p Point) Point {
	if p.Inf || k.Sign() == 0 {
		return Infinity
	}
	if k.Sign() < 0 {
		return c.Mul(new(big.Int).Neg(k), c.Neg(p))
	}
	base := jp{new(big.Int).Set(p.X), new(big.Int).Set(p.Y), big.NewInt(1)}
	acc := jp{big.NewInt(1), big.NewInt(1), big.NewInt(0)}
	for i := k.BitLen() - 1; i >= 0; i-- {
		acc = c.jdouble(acc)
		if k.Bit(i) == 1 {
			acc = c.jadd(acc, base)
		}
	}
	return c.toAffine(acc)
}

// Add returns p+q.
func (c *Curve) Add(p, q Point) Point { return c.AddAffine(p, q) }

// FE2OS encodes a field element on the fixed field length (TR-03111 3.1.3).
func (c *Curve) FE2OS(x *big.Int) []byte {
	return x.FillBytes(make([]byte, c.ByteLen))
}

// Encode gives the uncompressed X9.62 encoding 04 || X || Y.
func (c *Curve) Encode(p Point) []byte {
	if p.Inf {
		return []byte{0}
	}
	out := append([]byte{4}, c.FE2OS(p.X)...)
	return append(out, c.FE2OS(p.Y)...)
}

// Decode parses an uncompressed point and checks it is on the curve.
func (c *Curve) Decode(b []byte) (Point, error) {
	if len(b) != 1+2*c.ByteLen || b[0] != 4 {
		return Point{}, fmt.Errorf("ecref: not an uncompressed point of %s (len %d)", c.Name, len(b))
	}
	p := Point{X: new(big.Int).SetBytes(b[1 : 1+c.ByteLen]), Y: new(big.Int).SetBytes(b[1+c.ByteLen:])}
	if !c.OnCurve(p) {
		return Point{}, errors.New("ecref: point not on curve")
	}
	return p, nil
}

// ---------------------------------------------------------------------------------------
// ECDSA (FIPS 186 / TR-03111 4.2.1) with explicit nonce

// HashToInt converts a digest to an integer, truncating to the bit length of n.
func (c *Curve) HashToInt(h []byte) *big.Int {
	nb := c.N.BitLen()
	if len(h)*8 > nb {
		h = h[:(nb+7)/8]
	}
	e := new(big.Int).SetBytes(h)
	if ex := len(h)*8 - nb; ex > 0 {
		e.Rsh(e, uint(ex))
	}
	return e
}

// Sign returns (r, s) for digest h with private key d and nonce k; ok=false if the
// nonce gives r=0 or s=0.
func (c *Curve) Sign(d *big.Int, h []byte, k *big.Int) (r, s *big.Int, ok bool) {
	k = new(big.Int).Mod(k, c.N)
	if k.Sign() == 0 {
		return nil, nil, false
	}
	R := c.Mul(k, c.G())
	r = new(big.Int).Mod(R.X, c.N)
	if r.Sign() == 0 {
		return nil, nil, false
	}
	e := c.HashToInt(h)
	s = new(big.Int).Mul(r, d)
	s.Add(s, e)
	s.Mul(s, new(big.Int).ModInverse(k, c.N))
	s.Mod(s, c.N)
	if s.Sign() == 0 {
		return nil, nil, false
	}
	return r, s, true
}

// Verify checks an ECDSA signature over digest h.
func (c *Curve) Verify(q Point, h []byte, r, s *big.Int) bool {
	if r == nil || s == nil || r.Sign() <= 0 || s.Sign() <= 0 || r.Cmp(c.N) >= 0 || s.Cmp(c.N) >= 0 {
		return false
	}
	if !c.OnCurve(q) {
		return false
	}
	e := c.HashToInt(h)
	w := new(big.Int).ModInverse(s, c.N)
	u1 := new(big.Int).Mul(e, w)
	u1.Mod(u1, c.N)
	u2 := new(big.Int).Mul(r, w)
	u2.Mod(u2, c.N)
	R := c.Add(c.Mul(u1, c.G()), c.Mul(u2, q))
	if R.Inf {
		return false
	}
	return new(big.Int).Mod(R.X, c.N).Cmp(r) == 0
}

// ---------------------------------------------------------------------------------------
// curve table

func hexInt(s string) *big.Int {
	v, ok := new(big.Int).SetString(s, 16)
	if !ok {
		panic("ecref: bad hex constant")
	}
	return v
}

func fromNIST(name string, id int, e elliptic.Curve) *Curve {
	p := e.Params()
	a := new(big.Int).Sub(p.P, big.NewInt(3))
	return &Curve{Name: name, ParamID: id, P: p.P, A: a, B: p.B, Gx: p.Gx, Gy: p.Gy, N: p.N, H: 1, ByteLen: (p.P.BitLen() + 7) / 8}
}

// fromBrainpool derives a and b from G, 2G, 3G computed by the brainpool package
// (whose r1 curves are implemented through the twisted curve and expose neither a nor b).
func fromBrainpool(name string, id int, e elliptic.Curve) *Curve {
	p := e.Params()
	x1, y1 := p.Gx, p.Gy
	x2, y2 := e.Double(x1, y1)
	x3, y3 := e.Add(x1, y1, x2, y2)
	f := func(x, y *big.Int) *big.Int { // y^2 - x^3
		v := new(big.Int).Mul(y, y)
		c3 := new(big.Int).Mul(x, x)
		c3.Mul(c3, x)
		v.Sub(v, c3)
		return v.Mod(v, p.P)
	}
	f1, f2 := f(x1, y1), f(x2, y2)
	den := new(big.Int).Sub(x1, x2)
	den.Mod(den, p.P)
	den.ModInverse(den, p.P)
	a := new(big.Int).Sub(f1, f2)
	a.Mul(a, den)
	a.Mod(a, p.P)
	b := new(big.Int).Mul(a, x1)
	b.Sub(f1, b)
	b.Mod(b, p.P)
	c := &Curve{Name: name, ParamID: id, P: p.P, A: a, B: b, Gx: p.Gx, Gy: p.Gy, N: p.N, H: 1, ByteLen: (p.P.BitLen() + 7) / 8}
	if !c.OnCurve(Point{X: x3, Y: y3}) {
		panic("ecref: derived brainpool coefficients do not fit 3G for " + name)
	}
	return c
}

var (
	once   sync.Once
	curves []*Curve
)

func initCurves() {
	p192 := &Curve{Name: "P-192", ParamID: 8,
		P:  hexInt("FFFFFFFFFFFFFFFFFFFFFFFFFFFFFFFEFFFFFFFFFFFFFFFF"),
		B:  hexInt("64210519E59C80E70FA7E9AB72243049FEB8DEECC146B9B1"),
		Gx: hexInt("188DA80EB03090F67CBF20EB43A18800F4FF0AFD82FF1012"),
		Gy: hexInt("07192B95FFC8DA78631011ED6B24CDD573F977A11E794811"),
		N:  hexInt("FFFFFFFFFFFFFFFFFFFFFFFF99DEF836146BC9B1B4D22831"), H: 1, ByteLen: 24}
	p192.A = new(big.Int).Sub(p192.P, big.NewInt(3))
	curves = []*Curve{
		p192,
		fromBrainpool("brainpoolP192r1", 9, brainpool.P192r1()),
		fromNIST("P-224", 10, elliptic.P224()),
		fromBrainpool("brainpoolP224r1", 11, brainpool.P224r1()),
		fromNIST("P-256", 12, elliptic.P256()),
		fromBrainpool("brainpoolP256r1", 13, brainpool.P256r1()),
		fromBrainpool("brainpoolP320r1", 14, brainpool.P320r1()),
		fromNIST("P-384", 15, elliptic.P384()),
		fromBrainpool("brainpoolP384r1", 16, brainpool.P384r1()),
		fromBrainpool("brainpoolP512r1", 17, brainpool.P512r1()),
		fromNIST("P-521", 18, elliptic.P521()),
	}
}

// All returns the eleven ICAO parameter sets in id order (8..18).
func All() []*Curve {
	once.Do(initCurves)
	return curves
}

func ByParamID(id int) *Curve {
	for _, c := range All() {
		if c.ParamID == id {
			return c
		}
	}
	return nil
}

func ByName(name string) *Curve {
	for _, c := range All() {
		if c.Name == name {
			return c
		}
	}
	return nil
}

// SelfTest validates constants and arithmetic: G on curve, n*G = O, (n-1)*G = -G,
// Jacobian ladder against affine additions, brainpoolP256r1 a/b against RFC 5639, and
// NIST curves against crypto/elliptic.
func SelfTest() error {
	for _, c := range All() {
		g := c.G()
		if !c.OnCurve(g) {
			return fmt.Errorf("%s: G not on curve", c.Name)
		}
		if !c.N.ProbablyPrime(20) || !c.P.ProbablyPrime(20) {
			return fmt.Errorf("%s: p or n not prime", c.Name)
		}
		if r := c.Mul(c.N, g); !r.Inf {
			return fmt.Errorf("%s: n*G != O", c.Name)
		}
		nm1 := new(big.Int).Sub(c.N, big.NewInt(1))
		if r := c.Mul(nm1, g); !r.Equal(c.Neg(g)) {
			return fmt.Errorf("%s: (n-1)*G != -G", c.Name)
		}
		// ladder vs repeated affine addition
		acc := Infinity
		for i := 1; i <= 20; i++ {
			acc = c.AddAffine(acc, g)
			if r := c.Mul(big.NewInt(int64(i)), g); !r.Equal(acc) || !c.OnCurve(r) {
				return fmt.Errorf("%s: %d*G mismatch", c.Name, i)
			}
		}
		// distributivity on larger scalars
		k1 := new(big.Int).Rsh(c.N, 1)
		k2 := new(big.Int).Rsh(c.N, 3)
		s := new(big.Int).Add(k1, k2)
		if !c.Mul(s, g).Equal(c.AddAffine(c.Mul(k1, g), c.Mul(k2, g))) {
			return fmt.Errorf("%s: (k1+k2)G != k1G + k2G", c.Name)
		}
	}
	bp := ByName("brainpoolP256r1")
	if bp.A.Cmp(hexInt("7D5A0975FC2C3057EEF67530417AFFE7FB8055C126DC5C6CE94A4B44F330B5D9")) != 0 ||
		bp.B.Cmp(hexInt("26DC5C6CE94A4B44F330B5D9BBD77CBF958416295CF7E1CE6BCCDC18FF8C07B6")) != 0 {
		return fmt.Errorf("brainpoolP256r1 a/b differ from RFC 5639: a=%x b=%x", bp.A, bp.B)
	}
	for _, e := range []struct {
		n string
		c elliptic.Curve
	}{{"P-224", elliptic.P224()}, {"P-256", elliptic.P256()}, {"P-384", elliptic.P384()}, {"P-521", elliptic.P521()}} {
		c := ByName(e.n)
		k := new(big.Int).Rsh(c.N, 2)
		k.Add(k, big.NewInt(12345))
		x, y := e.c.ScalarBaseMult(k.Bytes())
		if r := c.Mul(k, c.G()); r.X.Cmp(x) != 0 || r.Y.Cmp(y) != 0 {
			return fmt.Errorf("%s: k*G differs from crypto/elliptic", e.n)
		}
	}
	return nil
}
