package ecref

import "math/big"

// Nonce searches: the r component of an ECDSA signature, r = x(k*G) mod n, depends on the
// nonce k only. Monitors that need a genuine signature whose encoding has a given shape
// (e.g. a plain r||s response that starts like a DER SEQUENCE header) look for a nonce
// here. Nothing in this file is used by Sign / Verify.

// RFromNonce returns r = x(k*G) mod n (nil when k = 0 mod n). It uses the Jacobian ladder
// (Mul), i.e. a different code path from the stepping search below.
func (c *Curve) RFromNonce(k *big.Int) *big.Int {
	k = new(big.Int).Mod(k, c.N)
	if k.Sign() == 0 {
		return nil
	}
	R := c.Mul(k, c.G())
	if R.Inf {
		return nil
	}
	return new(big.Int).Mod(R.X, c.N)
}

// PrefixRange returns [lo, hi) of the integers whose big-endian encoding on n octets
// starts with the given octets.
func PrefixRange(prefix []byte, octets int) (lo, hi *big.Int) {
	shift := uint(8 * (octets - len(prefix)))
	lo = new(big.Int).Lsh(new(big.Int).SetBytes(prefix), shift)
	hi = new(big.Int).Add(new(big.Int).SetBytes(prefix), big.NewInt(1))
	hi.Lsh(hi, shift)
	return lo, hi
}

// StepNonce looks at the nonces k0, k0+1, ... (at most steps of them) and returns the
// first one whose r lies in [lo, hi). One ladder for k0*G, then one affine addition of G
// (one field inversion) per candidate.
func (c *Curve) StepNonce(k0 *big.Int, steps int, lo, hi *big.Int) (k, r *big.Int, ok bool) {
	k = new(big.Int).Mod(k0, c.N)
	if k.Sign() == 0 {
		k.SetInt64(1)
	}
	g := c.G()
	p := c.Mul(k, g)
	r = new(big.Int)
	for i := 0; i < steps; i++ {
		if !p.Inf {
			r.Set(p.X)
			if r.Cmp(c.N) >= 0 {
				r.Mod(r, c.N)
			}
			if r.Sign() > 0 && r.Cmp(lo) >= 0 && r.Cmp(hi) < 0 {
				return k, new(big.Int).Set(r), true
			}
		}
		p = c.AddAffine(p, g)
		k.Add(k, big.NewInt(1))
		if k.Cmp(c.N) >= 0 {
			k.Sub(k, c.N)
		}
	}
	return nil, nil, false
}
